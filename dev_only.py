import sys, os
sys.path.insert(0, '/verif')
from pyvc.index import RepoIndex
from pyvc import contracts as C
from pyvc.verify import verify_function
from pyvc.solve import discharge
reg = C.load_all(); idx = RepoIndex()
q = [k for k in reg if k.endswith(sys.argv[1])][0]; pat = sys.argv[2]
eng, obs, cx, t = verify_function(idx, reg, q, pid=os.environ.get("PID"))
print("symexec %.1fs, %d obligations" % (t, len(obs)))
obs = [o for o in obs if pat in o.name]
res = discharge(obs, cx.facts, timeout_ms=int(os.environ.get("TMO", "60000")))
for ob, r in zip(obs, res):
    print("  %-8s %6.2fs %s %s" % (r['result'], r['secs'], ob.name, list(ob.props)))
    if r['result'] != 'unsat': print("     reason:", str(r.get('reason'))[:300])
