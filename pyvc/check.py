"""check <PROPERTY> --tier quick|thorough   (run under python3-vt)

Exit codes: 0 held (or only KNOWN-FINDINGs), 1 violation (VIOLATION line printed),
2 undecided (solver unknown / new unmodelled construct), 3 checker error."""
import argparse
import hashlib
import json
import os
import subprocess
import sys
import time
import traceback

VERIF = os.path.dirname(os.path.dirname(os.path.abspath(__file__)))
sys.path.insert(0, VERIF)

import z3  # noqa: E402

from pyvc import contracts as C  # noqa: E402
from pyvc.index import RepoIndex, REPO  # noqa: E402
from pyvc.solve import discharge, check_sat  # noqa: E402
from pyvc.symexec import Undecided  # noqa: E402
from pyvc.verify import verify_function  # noqa: E402

TRUSTED_BASE = [
    "T1 pyvc itself (VC generator /verif/pyvc; mitigated every run by vacuity covers and the in-memory mutant self-test)",
    "T2 semantics assumed by the encoding: Python int and float are mathematical integers/reals (ext-real where stated); "
    "a 1-element array, a NumPy scalar and a Python scalar denote the same number; elementwise NumPy ops are row independent; "
    "no aliasing between distinct tracked access paths (in-place array stores are functional updates of the stored-into path)",
    "T3 NumPy/SciPy primitive models in /verif/pyvc/npmodel.py (executable twins: /verif/replay/axiom_twins.py)",
    "T4 assumed contracts on gpyreg (GP.predict pure; fit/update mutate only the GP, may raise LinAlgError, terminate)",
    "T5 user callables (target, non_box_cons) do not mutate BADS state or their argument",
    "T6 z3 (and cvc5 / z3-4.8 in the thorough tier)",
    "T7 single-threaded execution",
    "T8 inferred frames of uncontracted in-repo callees (syntactic may-write analysis /verif/pyvc/frames.py, attribute->class table ATTR_CLASS)",
]


def load_props():
    from contracts import props

    return props.PROPS


def run_functions(index, registry, quals, models, timeout_ms, seed, second=None, pid=None, only=None):
    """Verify each function; returns per-function records."""
    recs = []
    for q in quals:
        rec = {"function": q, "status": "ok", "obligations": [], "notes": {}, "covers": []}
        # "qual@@text": only the obligations whose name contains `text` are counted here (call-site obligations of a function
        # whose remaining obligations - the loop invariants they rest on - are discharged under another property's check)
        only_q = None
        if "@@" in q:
            q, only_q = q.split("@@", 1)
            rec["restricted_to"] = only_q
        try:
            fi = index.find(q.split("#")[0])
            if fi is None:
                raise Undecided("function %s not found in the current source" % q)
            eng, obs, cx, t = verify_function(index, registry, q, models, pid=pid)
            if pid is not None:
                # obligations tagged with properties are counted only for those; untagged (auxiliary) ones for every property
                from pyvc.contracts import DEPS
                obs = [o for o in obs if not o.props or (set(o.props) & DEPS.get(pid, {pid}))]
            if only_q is not None:
                obs = [o for o in obs if only_q in o.name]
            if only is not None:
                obs = [o for o in obs if only in o.name]
            rec["source_hash"] = fi.hash
            rec["symexec_s"] = round(t, 3)
            # the proof search is deterministic: the solver seed is fixed (VERIF_SEED drives the sampling layers, the choice of
            # self-test mutants and the second-solver sample only)
            res = discharge(obs, cx.facts, timeout_ms=timeout_ms, seed=0, second=second)
            for ob, r in zip(obs, res):
                rec["obligations"].append({"name": ob.name, "kind": ob.kind, "top": ob.top, "props": list(ob.props), "where": ob.where,
                                           "clause": ob.clause.expr if ob.clause is not None else None, **r})
            cov = check_sat([c for _, c in eng.covers], cx.facts, timeout_ms=1500)
            rec["covers"] = [{"name": n, "result": r} for (n, _), r in zip(eng.covers, cov)]
            kinds = {}
            for k, w, tx in cx.notes:
                kinds.setdefault(k, []).append("%s %s" % (w, tx))
            rec["notes"] = {k: sorted(set(v)) for k, v in kinds.items()}
            rec["effects"] = sorted(set("%s@%s" % e for e in eng.effects))
            rec["assumed_callee_contracts"] = sorted(eng.assumed_contracts)
            # callee contracts used here whose bodies are not verified for this property: trusted (never verified) or
            # verified under another property's function list
            rec["callee_contracts_not_verified_here"] = sorted(
                (u + (" [TRUSTED: %s]" % registry[u].trusted_reason if getattr(registry.get(u), "trusted", False) else " [body verified under another property or not at all]"))
                for u in eng.used_contracts if u not in quals and u != q)
            c = registry[q]
            rec["assumed"] = [a.name + ": " + a.expr + "  (" + getattr(a, "why", "") + ")" for a in c.assume]
            for u in sorted(eng.used_contracts):
                for a in getattr(registry.get(u), "ensures", []):
                    if getattr(a, "assumed", False):
                        rec["assumed"].append("assumed postcondition of %s: %s: %s  (%s)" % (u, a.name, a.expr, getattr(a, "why", "")))
            rec["requires"] = [a.name + ": " + a.expr for a in c.requires]
            missing = [h for h in c.hooks if h not in eng.hooks_fired] + [h for h in c.chooses if ("choose:" + h) not in eng.hooks_fired] + [cut["key"] for k, cut in enumerate(c.cuts) if k not in eng.cuts_fired]
            if missing:
                rec["status"] = "undecided"
                rec["error"] = "ghost hook statement(s) not found in the current source: %s" % missing
        except Undecided as ex:
            rec["status"] = "undecided"
            rec["error"] = str(ex)
        except Exception:
            rec["status"] = "error"
            rec["error"] = traceback.format_exc()[-1500:]
        recs.append(rec)
    return recs


def summarize(recs):
    tot = dis = 0
    failed, undecided, errors = [], [], []
    for r in recs:
        if r["status"] == "undecided":
            undecided.append((r["function"], r.get("error")))
        elif r["status"] == "error":
            errors.append((r["function"], r.get("error")))
        for o in r["obligations"]:
            tot += 1
            if o["result"] == "unsat":
                dis += 1
            elif o["result"] == "sat":
                failed.append(o)
            else:
                undecided.append((o["name"], o.get("reason")))
            sec = o.get("second") or {}
            for nm, sr in sec.items():
                if sr["result"] in ("sat", "unsat") and o["result"] in ("sat", "unsat") and sr["result"] != o["result"]:
                    undecided.append((o["name"], "solver disagreement: z3=%s %s=%s" % (o["result"], nm, sr["result"])))
    return tot, dis, failed, undecided, errors


def run_mutants(registry, mutants, models, timeout_ms, seed, only=None, pid=None, scans=()):
    """In-memory mutations of the freshly parsed source; each must fail its expected obligation."""
    out = []
    for m in mutants:
        if only is not None and m["id"] not in only:
            continue
        rec = {"id": m["id"], "what": m.get("what", ""), "expect": m["expect"], "detected": False, "failed": []}
        try:
            src = open(os.path.join(REPO, m["path"]), encoding="utf-8").read()
            if src.count(m["old"]) < 1:
                rec["status"] = "stale"  # the code no longer contains the mutated text (e.g. tree was changed)
                out.append(rec)
                continue
            msrc = src.replace(m["old"], m["new"], 1)
            for o2, n2 in m.get("extra", []):
                if o2 not in msrc:
                    rec["status"] = "stale"
                msrc = msrc.replace(o2, n2, 1)
            if rec.get("status") == "stale":
                out.append(rec)
                continue
            idx = RepoIndex(overrides={m["path"]: msrc})
            recs = run_functions(idx, registry, m["functions"], models, min(timeout_ms, 6000), seed, pid=pid, only=m["expect"])
            _, _, failed, und, err = summarize(recs)
            if m["expect"].startswith("scan::"):
                # obligations decided by the syntactic / effect scans are re-run on the mutated source as well
                for fn in scans:
                    for o in fn(idx, registry):
                        if o.get("result") != "unsat":
                            failed.append(o)
            rec["failed"] = [o["name"] for o in failed]
            rec["not_proved"] = [str(n) for n, _ in und if m["expect"] in str(n)] + [str(n) for n, why in und if "not found in the current source" in str(why)]
            # self-test criterion: the expected obligation is no longer discharged (sat = counter-model; unknown = proof lost)
            rec["detected"] = any(m["expect"] in n for n in rec["failed"]) or bool(rec["not_proved"])
            rec["status"] = "ok" if rec["detected"] else "missed"
            if err:
                rec["status"] = "error"
                rec["error"] = str(err)[:500]
            if failed:
                o = [o for o in failed if m["expect"] in o["name"]] or failed
                rec["sample_model"] = dict(list((o[0].get("model") or {}).items())[:12])
        except Exception:
            rec["status"] = "error"
            rec["error"] = traceback.format_exc()[-800:]
        out.append(rec)
    return out


def _site(text):
    import re
    return re.sub(r"[!@~]\d+", "!", text)


def known_findings():
    p = os.path.join(VERIF, "known_findings.jsonl")
    out = []
    if os.path.exists(p):
        for l in open(p):
            l = l.strip()
            if l and not l.startswith("#"):
                out.append(json.loads(l))
    return out


def ledger():
    p = os.path.join(VERIF, "ledger", "baseline.json")
    if os.path.exists(p):
        return json.load(open(p))
    return {}


def native(script, args, timeout=3000):
    """Run a /venv/bin/python harness (replay / cross-check); returns parsed JSON from its last stdout line."""
    cmd = ["/venv/bin/python", "-W", "ignore", os.path.join(VERIF, "replay", script)] + args
    env = dict(os.environ)
    env["PYTHONPATH"] = REPO + os.pathsep + VERIF
    env.setdefault("OMP_NUM_THREADS", "1")
    env.setdefault("OPENBLAS_NUM_THREADS", "1")
    try:
        p = subprocess.run(cmd, capture_output=True, text=True, timeout=timeout, env=env, cwd=REPO)
    except subprocess.TimeoutExpired:
        return {"status": "timeout"}
    lines = [l for l in p.stdout.strip().splitlines() if l.startswith("{")]
    if not lines:
        return {"status": "error", "stderr": p.stderr[-1500:], "stdout": p.stdout[-500:], "rc": p.returncode}
    try:
        return json.loads(lines[-1])
    except Exception:
        return {"status": "error", "stdout": p.stdout[-500:]}


def main():
    ap = argparse.ArgumentParser()
    ap.add_argument("prop")
    ap.add_argument("--tier", default=os.environ.get("VERIF_TIER", "quick"))
    ap.add_argument("--replay", default=None)
    ap.add_argument("--no-native", action="store_true")
    ap.add_argument("--write-ledger", action="store_true")
    a = ap.parse_args()
    tier = a.tier if a.tier in ("quick", "thorough") else "quick"
    seed = int(os.environ.get("VERIF_SEED", "0") or 0)
    pid = a.prop
    t0 = time.time()
    props = load_props()
    if pid not in props:
        print("unknown property", pid)
        return 3
    P = props[pid]
    if a.replay:
        return replay_file(pid, P, a.replay)
    registry = C.load_all()
    models = P.get("models")
    # nominal solver budget per query (resource units, see solve.py); a property whose heaviest obligation sits near the default
    # quick budget declares a larger one so that the verdict is not at the edge of the limit
    timeout_ms = P.get("quick_timeout_ms", 20000) if tier == "quick" else 60000
    out_dir = os.path.join(VERIF, "out", "replays")
    os.makedirs(out_dir, exist_ok=True)
    index = RepoIndex()
    if index.parse_errors:
        print("source does not parse:", index.parse_errors)
        return 3
    second = ["cvc5"] if tier == "thorough" else None
    recs = run_functions(index, registry, P["functions"], models, timeout_ms, seed, second, pid=pid)
    tot, dis, failed, undecided, errors = summarize(recs)
    # lemmas / scans (pure python obligations: coverage scans etc.)
    extra = []
    if P.get("lemmas"):
        from pyvc import lemmas as _lem
        extra.extend(_lem.prove_all())
    for fn in P.get("scans", []):
        try:
            extra.extend(fn(index, registry))
        except Exception:
            errors.append((getattr(fn, "__name__", "scan"), traceback.format_exc()[-800:]))
    for e in extra:
        tot += 1
        if e["result"] == "unsat":
            dis += 1
        elif e["result"] == "sat":
            failed.append(e)
        else:
            undecided.append((e["name"], e.get("reason")))
    # vacuity guards
    vac = []
    for r in recs:
        for c in r["covers"]:
            if c["result"] == "unsat" and c["name"] not in P.get("dead_ok", []):
                vac.append(c["name"])
    # mutant self-test
    muts = P.get("mutants", [])
    if tier == "quick":
        k = min(2, len(muts))
        import random as _r
        sel = [m["id"] for m in _r.Random(seed).sample(muts, k)] if muts else []
        mres = run_mutants(registry, muts, models, timeout_ms, seed, only=set(sel), pid=pid, scans=P.get("scans", ()))
    else:
        mres = run_mutants(registry, muts, models, timeout_ms, seed, pid=pid, scans=P.get("scans", ()))
    missed = [m for m in mres if m.get("status") in ("missed", "other-obligation", "error")]
    inconclusive = [m for m in mres if m.get("status") == "inconclusive"]
    # bounded / native layers
    bounded = []
    native_viol = []
    if not a.no_native:
        for nb in P.get("native", []):
            if nb.get("tier") == "thorough" and tier != "thorough":
                continue
            args = [str(x) for x in nb.get("args_" + tier, nb.get("args", []))] + ["--seed", str(seed)]
            r = native(nb["script"], args, timeout=nb.get("timeout", 1500))
            r["name"] = nb["name"]
            r["bounded"] = True
            bounded.append(r)
            if r.get("status") not in ("ok", "violation"):
                errors.append((nb["name"], json.dumps(r)[:600]))
            # a harness shared by several properties reports every clause it watches; this check keeps its own
            mine = [v for v in r.get("violations", []) if str(v.get("clause", pid + ".")).startswith(pid + ".")]
            r["other_clauses_fired"] = sorted(set(list(r.get("other_clauses_fired") or []) + [str(v.get("clause")) for v in r.get("violations", []) if v not in mine]))
            r["violations"] = mine
            for v in mine:
                native_viol.append((nb, v))
    if tier == "thorough" and not a.no_native:
        tw = native("axiom_twins.py", ["--seed", str(seed), "--rounds", "600"], timeout=900)
        tw["name"] = "numpy-axiom-twins"
        tw["bounded"] = True
        bounded.append(tw)
        if tw.get("status") != "ok":
            errors.append(("numpy-axiom-twins", json.dumps(tw)[:600]))
    # classification ----------------------------------------------------------------------------
    kf = [k for k in known_findings() if k["property"] == pid and k.get("status") == "known"]
    led_full = ledger().get(pid, {})
    led = set(led_full.get("obligations", {})) if isinstance(led_full, dict) else set(led_full)
    led_secs = led_full.get("obligations", {}) if isinstance(led_full, dict) else {}
    led_sites = led_full.get("opaque_sites", {}) if isinstance(led_full, dict) else {}
    # ledger obligations that came back undecided (timeout / unknown): one more attempt each with a generous budget;
    # an obligation discharged in the baseline that cannot be re-discharged with >= 100x its baseline time (at least 60 s, at most 120 s of
    # nominal solver budget) is a failed obligation
    lost = []
    if led:
        from pyvc.solve import retry_alone
        byname = {o["name"]: (r, o) for r in recs for o in r["obligations"]}
        todo = [n for n, why in undecided if n in led and n in byname and byname[n][1]["result"] in ("unknown", "error")]
        if todo:
            budget = int(min(120000, max(60000, 200 * 1000 * max(led_secs.get(n, 0.5) for n in todo))))
            rr = retry_alone([byname[n][1]["_smt2"] for n in todo], budget, 0)
            for n, res in zip(todo, rr):
                r, o = byname[n]
                o["retry"] = {"result": res[0], "secs": round(res[3], 1), "budget_ms": budget}
                # opaque sites are compared modulo the fresh-symbol counters in their names (any edit renumbers them)
                new_sites = sorted(set(_site(x.split(" ", 1)[-1]) for v in r.get("notes", {}).values() for x in v) - set(_site(y) for y in led_sites.get(r["function"], [])))
                if res[0] == "unsat":
                    o["result"] = "unsat"
                    undecided = [u for u in undecided if u[0] != n]
                    dis += 1
                elif res[0] == "sat":
                    o["result"], o["model"] = "sat", res[1]
                    undecided = [u for u in undecided if u[0] != n]
                    failed.append(o)
                elif not new_sites:
                    o["result"] = "sat"
                    o["reason"] = "proof lost: discharged in %.2fs on the baseline tree, not re-discharged within %d ms (%s)" % (led_secs.get(n, 0), budget, res[2])
                    o["proof_lost"] = True
                    undecided = [u for u in undecided if u[0] != n]
                    failed.append(o)
                    lost.append(n)
    violations, known_hits, undec_extra = [], [], []
    for o in failed:
        hit = [k for k in kf if k.get("obligation") == o["name"] or o["name"] in (k.get("obligations") or [])]
        if hit:
            known_hits.append((hit[0], o))
            continue
        rp = os.path.join(out_dir, "%s-%s.json" % (pid, hashlib.sha1(o["name"].encode()).hexdigest()[:10]))
        rep = {"property": pid, "obligation": o["name"], "kind": o.get("kind"), "top": o.get("top"), "clause": o.get("clause"),
               "where": o.get("where"), "solver": o.get("backend"), "solver_result": "sat (negated goal satisfiable: counter-model below)",
               "counter_model": o.get("model"), "solver_reason": o.get("reason"), "proof_lost_without_counter_model": bool(o.get("proof_lost")),
               "in_baseline_ledger": o["name"] in led, "failing_input": None}
        found = None
        n_replays = len(violations) + len(undec_extra)
        if not a.no_native and P.get("replay") and n_replays < 3:  # at most three replay searches per run (each is a panel of real runs)
            rr = native(P["replay"]["script"], [str(x) for x in P["replay"].get("args", [])] + ["--obligation", o["name"], "--seed", str(seed)],
                        timeout=P["replay"].get("timeout", 1500))
            rep["native_replay"] = rr
            if rr.get("violations"):
                found = rr["violations"][0]
                rep["failing_input"] = found
        json.dump(rep, open(rp, "w"), indent=1, default=str)
        if found is None and o["name"] not in led and led:
            undec_extra.append((o["name"], "obligation not in the baseline ledger failed and no failing input was found: undecided"))
            continue
        violations.append((o, rp, found))
    for nb, v in native_viol:
        # a known finding names the clause and, where the harness classifies its findings, the input class: a violation of the
        # same clause with another class is a new violation
        hit = [k for k in kf if k.get("clause") == v.get("clause") and (k.get("class") is None or k.get("class") == v.get("class"))]
        if hit:
            known_hits.append((hit[0], v))
            continue
        rp = os.path.join(out_dir, "%s-native-%s.json" % (pid, hashlib.sha1(json.dumps(v, sort_keys=True, default=str).encode()).hexdigest()[:10]))
        json.dump({"property": pid, "native_check": nb["name"], "failing_input": v, "replay": "run the real code with this input; see replay/%s" % nb["script"]}, open(rp, "w"), indent=1, default=str)
        violations.append(({"name": "native::" + nb["name"] + "::" + str(v.get("clause", "")), "top": True}, rp, v))
    undecided = undecided + undec_extra
    # evidence ----------------------------------------------------------------------------------
    wall = time.time() - t0
    samples = []
    for r in recs:
        for o in r["obligations"][:2]:
            samples.append({"obligation": o["name"], "kind": o["kind"], "clause": o.get("clause"), "result": o["result"], "solver_s": o["secs"], "smt_bytes": o.get("smt_bytes"), "facts_used": o.get("nfacts")})
    for m in mres[:2]:
        samples.append({"mutant": m["id"], "what": m["what"], "failed_obligations": m["failed"][:4], "counter_model_excerpt": m.get("sample_model")})
    level = P.get("level", "proof")
    ev = {
        "property_id": pid, "tier": tier, "seed": seed, "level": level,
        "coverage": {
            # obligations that fail as recorded known findings are reported separately (known_findings_hit), not claimed as proved
            "obligations": tot - sum(1 for _, o in known_hits if isinstance(o, dict) and o.get("name") and "result" in o), "discharged": dis,
            "known_finding_obligations": [o["name"] for _, o in known_hits if isinstance(o, dict) and o.get("name") and "result" in o],
            "checker_cmd": "cd /verif && python3-vt pyvc/check.py %s --tier %s" % (pid, tier),
            "trusted_base": TRUSTED_BASE + P.get("trusted_extra", []),
            "explanation": P.get("explanation", ""),
            "functions_under_contract": [{"function": r["function"], "source_hash": r.get("source_hash"), "status": r["status"],
                                          "obligations": len(r["obligations"]), "discharged": sum(1 for o in r["obligations"] if o["result"] == "unsat"),
                                          "solver_s": round(sum(o["secs"] for o in r["obligations"]), 2), "backend": (r["obligations"][0]["backend"] if r["obligations"] else None),
                                          "preconditions": r.get("requires", []), "assumed_unchecked": r.get("assumed", []) + ["assumed (bounded-checked) contract of " + q for q in r.get("assumed_callee_contracts", [])] + ["callee contract used, body not verified in this check: " + q for q in r.get("callee_contracts_not_verified_here", [])],
                                          "opaque_sites": r.get("notes", {}), "error": r.get("error")} for r in recs],
            "top_level_obligations": [o["name"] for r in recs for o in r["obligations"] if o["top"] and pid in o["props"]] + [e["name"] for e in extra if e.get("top")],
            "scan_obligations": extra,
            "vacuity": {"covers_checked": sum(len(r["covers"]) for r in recs), "unreachable": vac},
            "mutant_selftest": mres,
            "bounded_standins": bounded,
            **({"evaluations": sum(int(b.get("evaluations") or 0) for b in bounded), "distinct_nontrivial": sum(int(b.get("distinct_nontrivial") or 0) for b in bounded),
                "rule": " | ".join(str(b.get("rule")) for b in bounded if b.get("rule")), "explored_cases": [c_ for b in bounded for c_ in (b.get("samples") or [])][:12]}
               if level in ("exploration", "fault_enumeration") else {}),
            "second_solver": second,
            "samples": ([c_ for b in bounded for c_ in (b.get("samples") or [])][:8] + samples) if level in ("exploration", "fault_enumeration") else samples,
            "solver_time_s": round(sum(o["secs"] for r in recs for o in r["obligations"]), 2),
            "known_findings_hit": [k["what"] for k, _ in known_hits],
            "undecided": [list(u) for u in undecided][:20],
        },
        "assumptions": TRUSTED_BASE + P.get("assumptions", []),
        "wall_s": round(wall, 2),
        "violations": len(violations),
    }
    for r in recs:
        for o in r["obligations"]:
            o.pop("_smt2", None)
    os.makedirs(os.path.join(VERIF, "evidence"), exist_ok=True)
    json.dump(ev, open(os.path.join(VERIF, "evidence", pid + ".json"), "w"), indent=1, default=str)
    if a.write_ledger and not failed and not undecided and not errors:
        L = ledger()
        L[pid] = {"obligations": dict(sorted([(o["name"], o["secs"]) for r in recs for o in r["obligations"]] + [(e["name"], 0.0) for e in extra])),
                  "opaque_sites": {r["function"]: sorted(set(x.split(" ", 1)[-1] for v in r.get("notes", {}).values() for x in v)) for r in recs}}
        os.makedirs(os.path.join(VERIF, "ledger"), exist_ok=True)
        json.dump(L, open(os.path.join(VERIF, "ledger", "baseline.json"), "w"), indent=1)
    # report ------------------------------------------------------------------------------------
    print("%s %s: %d obligations, %d discharged, %d failed, %d undecided; %d mutants run (%d missed); wall %.1fs" %
          (pid, tier, tot, dis, len(failed), len(undecided), len(mres), len(missed), wall))
    seen_kf = set()
    for k, o in known_hits:
        if k["what"] not in seen_kf:
            seen_kf.add(k["what"])
            print("KNOWN-FINDING: property=%s %s" % (pid, k["what"]))
    if violations:
        # a refuted obligation / a failing input on the real code stands on its own, whatever else went wrong in this run
        for o, rp, found in violations:
            tail = "" if found is not None else " no-failing-input-found"
            print("FAILED-OBLIGATION %s%s" % (o["name"], " [top-level clause]" if o.get("top") else " [auxiliary]"))
            print("VIOLATION property=%s replay=%s%s" % (pid, rp, tail))
        for n, e in errors:
            print("CHECKER-ERROR %s: %s" % (n, e))
        return 1
    if errors:
        for n, e in errors:
            print("CHECKER-ERROR %s: %s" % (n, e))
        return 3
    if vac:
        print("UNDECIDED: unreachable (vacuous) program points: %s" % vac)
        return 2
    if undecided:
        for n, why in undecided[:10]:
            print("UNDECIDED %s: %s" % (n, why))
        return 2
    if inconclusive:
        for m in inconclusive:
            print("UNDECIDED: self-test mutant %s inconclusive (solver unknown)" % m["id"])
        return 2
    if missed:
        for m in missed:
            print("SELFTEST-FAILED mutant %s (%s) was not detected: %s" % (m["id"], m["what"], m.get("status")))
        return 3
    if tot == 0:
        print("UNDECIDED: zero obligations")
        return 2
    return 0


def replay_file(pid, P, path):
    rep = json.load(open(path))
    print(json.dumps({k: rep.get(k) for k in ("property", "obligation", "clause", "failing_input")}, indent=1, default=str))
    if P.get("replay") and rep.get("failing_input"):
        r = native(P["replay"]["script"], ["--input", json.dumps(rep["failing_input"], default=str)])
        print(json.dumps(r, indent=1)[:3000])
        return 1 if r.get("violations") else 0
    return 0


if __name__ == "__main__":
    try:
        rc = main()
    except Exception:
        traceback.print_exc()
        rc = 3
    sys.exit(rc)
