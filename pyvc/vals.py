"""Symbolic values for pyvc.

Numbers are z3 Int/Real terms, optionally with an IEEE "special value" tag
(ext-real mode); arrays are Python closures from symbolic indices to element
terms plus a symbolic shape; everything dynamic is a `Val` with optional facets.
"""
import itertools
import z3

FIN, PINF, NINF, NAN = 0, 1, 2, 3


class Ctx:
    """Per-verification-run context: global facts, fresh names, notes."""

    def __init__(self):
        self.facts = []  # z3 Bool assumptions (axiom instances, contract facts)
        self.counter = itertools.count()
        self.binders = []  # stack of lists of bound z3 consts
        self.notes = []  # (kind, where, text)  unmodelled constructs etc.
        self.entry = {}  # memoised entry symbols  name -> Val
        self.types = {}  # path -> type spec (from contract)
        self.strings = {}  # literal -> int id
        self.ufs = {}
        self.fact_keys = set()
        self.defines = {}
        self.rnd_used = False

    def fresh(self, base="t"):
        return "%s!%d" % (base, next(self.counter))

    def add_fact(self, f, key=None, defines=None):
        """defines: names of the fresh symbols this fact defines; such a fact is only relevant to a query whose
        cone of influence already contains one of them (dropping facts is always sound)."""
        if key is not None:
            if key in self.fact_keys:
                return
            self.fact_keys.add(key)
        if self.binders:
            bs = [b for grp in self.binders for b in grp]
            f = z3.ForAll(bs, f)
        self.facts.append(f)
        if defines:
            self.defines[f.get_id()] = set(defines)

    def note(self, kind, where, text):
        self.notes.append((kind, where, text))

    def str_id(self, s):
        if s not in self.strings:
            self.strings[s] = len(self.strings) + 1
        return z3.IntVal(self.strings[s])

    def uf(self, name, *sorts):
        k = (name,) + tuple(str(s) for s in sorts)
        if k not in self.ufs:
            self.ufs[k] = z3.Function(name, *sorts)
        return self.ufs[k]


CTX = Ctx()


def set_ctx(c):
    global CTX
    CTX = c
    return c


def ctx():
    return CTX


# ----------------------------------------------------------------------------
# numbers
# ----------------------------------------------------------------------------
def _real(x):
    if isinstance(x, (int, float)):
        if isinstance(x, int) or float(x).is_integer():
            return z3.RealVal(int(x))
        return z3.RealVal(repr(float(x)))
    if z3.is_int(x):
        return z3.ToReal(x)
    return x


class N:
    """Scalar number: r (Int or Real term), t (None = finite, or Int tag term)."""

    __slots__ = ("r", "t", "hint")

    def __init__(self, r, t=None, hint=None):
        self.hint = hint  # 'lo': t in {FIN, NINF} (a lower bound); 'hi': t in {FIN, PINF} (an upper bound)
        if isinstance(r, bool):
            r = z3.IntVal(1 if r else 0)
        elif isinstance(r, int):
            r = z3.IntVal(r)
        elif isinstance(r, float):
            if r != r:
                r, t = z3.RealVal(0), z3.IntVal(NAN)
            elif r == float("inf"):
                r, t = z3.RealVal(0), z3.IntVal(PINF)
            elif r == float("-inf"):
                r, t = z3.RealVal(0), z3.IntVal(NINF)
            else:
                r = _real(r)
        self.r = r
        self.t = t

    def is_int(self):
        return z3.is_int(self.r) and self.t is None

    def tag(self):
        return self.t if self.t is not None else z3.IntVal(FIN)

    def __repr__(self):
        return "N(%s%s)" % (self.r, "" if self.t is None else ", t=%s" % self.t)


def n_fresh(name, sort="real", ext=False):
    c = z3.Int(name) if sort == "int" else z3.Real(name)
    if ext:
        t = z3.Int(name + "!tag")
        ctx().add_fact(z3.And(t >= 0, t <= 3), key=("tagrange", name))
        return N(c, t)
    return N(c)


def _simp_tag(t):
    if t is None:
        return None
    t = z3.simplify(t)
    if z3.is_int_value(t) and t.as_long() == FIN:
        return None
    return t


def _is(t, k):
    return t == k


def n_neg(a):
    if a.t is None:
        return N(-a.r)
    t = a.t
    return N(-a.r, _simp_tag(z3.If(t == PINF, NINF, z3.If(t == NINF, PINF, t))))


def n_add(a, b):
    if a.t is None and b.t is None:
        return N(a.r + b.r)
    ta, tb = a.tag(), b.tag()
    nan = z3.Or(ta == NAN, tb == NAN, z3.And(ta == PINF, tb == NINF), z3.And(ta == NINF, tb == PINF))
    t = z3.If(nan, NAN, z3.If(z3.Or(ta == PINF, tb == PINF), PINF, z3.If(z3.Or(ta == NINF, tb == NINF), NINF, FIN)))
    return N(_real(a.r) + _real(b.r), _simp_tag(t))


def n_sub(a, b):
    return n_add(a, n_neg(b))


def n_mul(a, b):
    if a.t is None and b.t is None:
        return N(a.r * b.r)
    ta, tb = a.tag(), b.tag()
    ra, rb = _real(a.r), _real(b.r)
    # sign of each operand: +1/-1/0 (finite zero)
    sa = z3.If(ta == PINF, 1, z3.If(ta == NINF, -1, z3.If(ra > 0, 1, z3.If(ra < 0, -1, 0))))
    sb = z3.If(tb == PINF, 1, z3.If(tb == NINF, -1, z3.If(rb > 0, 1, z3.If(rb < 0, -1, 0))))
    anyinf = z3.Or(ta == PINF, ta == NINF, tb == PINF, tb == NINF)
    nan = z3.Or(ta == NAN, tb == NAN, z3.And(anyinf, z3.Or(sa == 0, sb == 0)))
    t = z3.If(nan, NAN, z3.If(anyinf, z3.If(sa * sb > 0, PINF, NINF), FIN))
    return N(ra * rb, _simp_tag(t))


def n_div(a, b):
    if a.t is None and b.t is None:
        return N(_real(a.r) / _real(b.r))
    # finite / finite only is precise; anything else: fresh unknown ext value
    ta, tb = a.tag(), b.tag()
    u = n_fresh(ctx().fresh("div"), ext=True)
    fin = z3.And(ta == FIN, tb == FIN, _real(b.r) != 0)
    ctx().add_fact(z3.Implies(fin, z3.And(u.t == FIN, u.r == _real(a.r) / _real(b.r))))
    # x / +-inf = 0 for finite x
    ctx().add_fact(z3.Implies(z3.And(ta == FIN, z3.Or(tb == PINF, tb == NINF)), z3.And(u.t == FIN, u.r == 0)))
    # +-inf / finite non-zero = +-inf with the product of the signs
    rb = _real(b.r)
    ctx().add_fact(z3.Implies(z3.And(z3.Or(ta == PINF, ta == NINF), tb == FIN, rb != 0),
                              u.t == z3.If((ta == PINF) == (rb > 0), PINF, NINF)))
    return u


def n_lt(a, b):
    if a.t is None and b.t is None:
        return a.r < b.r
    ta, tb = a.tag(), b.tag()
    return z3.And(
        ta != NAN,
        tb != NAN,
        z3.Or(
            z3.And(ta == FIN, tb == FIN, _real(a.r) < _real(b.r)),
            z3.And(ta == NINF, tb != NINF),
            z3.And(tb == PINF, ta != PINF),
        ),
    )


def n_eq(a, b):
    if a.t is None and b.t is None:
        return a.r == b.r
    ta, tb = a.tag(), b.tag()
    return z3.And(ta != NAN, ta == tb, z3.Or(ta != FIN, _real(a.r) == _real(b.r)))


def n_le(a, b):
    if a.t is None and b.t is None:
        return a.r <= b.r
    return z3.Or(n_lt(a, b), n_eq(a, b))


def n_ne(a, b):
    return z3.Not(n_eq(a, b))


def n_gt(a, b):
    return n_lt(b, a)


def n_ge(a, b):
    return n_le(b, a)


def n_ite(c, a, b):
    if a is b:
        return a
    if a.hint is not None and a.hint == b.hint:
        return N(z3.If(c, _real(a.r), _real(b.r)), _simp_tag(z3.If(c, a.tag(), b.tag())), a.hint)
    if a.t is None and b.t is None:
        ra, rb = a.r, b.r
        if z3.is_int(ra) != z3.is_int(rb):
            ra, rb = _real(ra), _real(rb)
        return N(z3.If(c, ra, rb))
    return N(z3.If(c, _real(a.r), _real(b.r)), _simp_tag(z3.If(c, a.tag(), b.tag())))


def n_isnan(a):
    return z3.BoolVal(False) if a.t is None else a.t == NAN


def n_isinf(a):
    return z3.BoolVal(False) if a.t is None else z3.Or(a.t == PINF, a.t == NINF)


def n_isfinite(a):
    return z3.BoolVal(True) if a.t is None else a.t == FIN


def n_minimum(a, b):
    """np.minimum: NaN-propagating."""
    if a.t is None and b.t is not None and b.hint == "hi":
        return N(z3.If(z3.And(b.t == FIN, _real(b.r) < _real(a.r)), _real(b.r), _real(a.r)))
    if b.t is None and a.t is not None and a.hint == "hi":
        return n_minimum(b, a)
    if a.t is None and b.t is None:
        ra, rb = a.r, b.r
        if z3.is_int(ra) != z3.is_int(rb):
            ra, rb = _real(ra), _real(rb)
        return N(z3.If(ra <= rb, ra, rb))
    nan = z3.Or(a.tag() == NAN, b.tag() == NAN)
    m = n_ite(n_le(a, b), a, b)
    return N(m.r, _simp_tag(z3.If(nan, NAN, m.tag())))


def n_maximum(a, b):
    if a.t is None and b.t is not None and b.hint == "lo":
        return N(z3.If(z3.And(b.t == FIN, _real(b.r) > _real(a.r)), _real(b.r), _real(a.r)))
    if b.t is None and a.t is not None and a.hint == "lo":
        return n_maximum(b, a)
    if a.t is None and b.t is None:
        ra, rb = a.r, b.r
        if z3.is_int(ra) != z3.is_int(rb):
            ra, rb = _real(ra), _real(rb)
        return N(z3.If(ra >= rb, ra, rb))
    nan = z3.Or(a.tag() == NAN, b.tag() == NAN)
    m = n_ite(n_ge(a, b), a, b)
    return N(m.r, _simp_tag(z3.If(nan, NAN, m.tag())))


def n_abs(a):
    if a.t is None:
        return N(z3.If(a.r >= 0, a.r, -a.r))
    return N(z3.If(_real(a.r) >= 0, _real(a.r), -_real(a.r)), _simp_tag(z3.If(a.t == NINF, PINF, a.t)))


def n_round(a):
    """np.round / round: integer-valued, |round(x)-x| <= 1/2 (tie rule not modelled); a function of its argument."""
    if a.is_int():
        return a
    c = ctx()
    c.rnd_used = True
    f = c.uf("rnd", z3.RealSort(), z3.IntSort())
    k = f(_real(a.r))
    if a.t is None:
        return N(z3.ToReal(k))
    return N(z3.ToReal(k), a.t)


def rnd_axioms():
    c = ctx()
    f = c.uf("rnd", z3.RealSort(), z3.IntSort())
    x = z3.Real("rndx")
    return [z3.ForAll([x], z3.And(2 * z3.ToReal(f(x)) - 1 <= 2 * x, 2 * x <= 2 * z3.ToReal(f(x)) + 1), patterns=[f(x)])]


def n_floor(a):
    if a.is_int():
        return a
    return N(z3.ToReal(z3.ToInt(_real(a.r))), a.t)


def n_ceil(a):
    if a.is_int():
        return a
    return N(-z3.ToReal(z3.ToInt(-_real(a.r))), a.t)


def n_uf(name, *args):
    """Uninterpreted real function of finite real args (sqrt, log, exp, pow, ...)."""
    f = ctx().uf(name, *([z3.RealSort()] * (len(args) + 1)))
    return N(f(*[_real(a.r) for a in args]))


# ----------------------------------------------------------------------------
# arrays
# ----------------------------------------------------------------------------
class Arr:
    """ndim in {0,1,2}; shape: tuple of z3 Int terms; elem(*idx) -> N | z3 Bool."""

    def __init__(self, ndim, shape, elem, dtype="num", name=None, intdtype=None):
        self.ndim = ndim
        self.shape = tuple(z3.IntVal(s) if isinstance(s, int) else s for s in shape)
        self._elem = elem
        self.dtype = dtype
        self.name = name
        self.intdtype = intdtype  # None | z3 Bool: array has an integer dtype (C08)
        self.cnt = None  # number of true entries (bool arrays with identity)
        self.rowf = None  # 2-D real arrays: k -> z3 Array(Int,Real) term denoting row k ("point")
        self.pt = None  # 1-D real arrays: z3 Array(Int,Real) term denoting the whole vector

    def elem(self, *idx):
        idx = [z3.IntVal(i) if isinstance(i, int) else i for i in idx]
        return self._elem(*idx)

    def row(self, k):
        """Row k as a z3 Array(Int, Real) term (value identity of points)."""
        if self.ndim == 2:
            if self.rowf is not None:
                return self.rowf(k)
            j = z3.Int("rowj")
            return z3.Lambda([j], _real(self.elem(k, j).r))
        if self.ndim == 1:
            if self.pt is not None:
                return self.pt
            j = z3.Int("rowj")
            return z3.Lambda([j], _real(self.elem(j).r))
        raise ValueError("row of 0-d array")

    def size(self):
        """Number of elements.  Products of two symbolic dims are abstracted by a fresh integer with the
        linear facts that matter (sign, zero test, bounds) to keep queries out of nonlinear arithmetic."""
        if getattr(self, "_size", None) is not None:
            return self._size
        lits = [z3.simplify(d) for d in self.shape]
        sym = [d for d in lits if not z3.is_int_value(d)]
        k = 1
        for d in lits:
            if z3.is_int_value(d):
                k *= d.as_long()
        if len(sym) == 0:
            self._size = z3.IntVal(k)
        elif len(sym) == 1:
            self._size = z3.simplify(sym[0] * k)
        else:
            c = ctx()
            sz = z3.Int(c.fresh("size"))
            c.add_fact(z3.And(sz >= 0, (sz == 0) == z3.Or(*[d == 0 for d in self.shape]), *[z3.Implies(d2 >= 1, sz >= d1) for d1 in sym for d2 in sym if d1 is not d2]), defines=[str(sz)])
            self._size = sz
        return self._size

    def in_range(self, *idx):
        return z3.And(*[z3.And(i >= 0, i < d) for i, d in zip(idx, self.shape)]) if idx else z3.BoolVal(True)

    def __repr__(self):
        return "Arr(%s,%s,%s)" % (self.name, self.ndim, [str(s) for s in self.shape])


def is_lit(e, v):
    e = z3.simplify(e) if z3.is_expr(e) else e
    return z3.is_int_value(e) and e.as_long() == v


def arr_fresh(name, ndim, shape, dtype="num", ext=False, sort="real"):
    c = ctx()
    if dtype == "bool":
        f = c.uf(name, *([z3.IntSort()] * ndim + [z3.BoolSort()]))
        r = Arr(ndim, shape, lambda *i: f(*i), "bool", name)
        r.cnt = z3.Int("cnt!" + name)
        return r
    if not ext and sort != "int" and ndim in (1, 2):
        PT = z3.ArraySort(z3.IntSort(), z3.RealSort())
        if ndim == 2:
            rf = c.uf(name, z3.IntSort(), PT)
            r = Arr(2, shape, lambda i, j: N(z3.Select(rf(i), j)), "num", name)
            r.rowf = lambda k: rf(k)
            return r
        p = z3.Const(name, PT)
        r = Arr(1, shape, lambda j: N(z3.Select(p, j)), "num", name)
        r.pt = p
        return r
    f = c.uf(name, *([z3.IntSort()] * ndim + [z3.IntSort() if sort == "int" else z3.RealSort()]))
    if ext:
        g = c.uf(name + "!tag", *([z3.IntSort()] * (ndim + 1)))
        hint = ext if ext in ("lo", "hi") else None

        def el(*i):
            t = g(*i)
            if hint == "lo":
                c.add_fact(z3.Or(t == FIN, t == NINF), key=("tagr", name, tuple(str(x) for x in i)))
            elif hint == "hi":
                c.add_fact(z3.Or(t == FIN, t == PINF), key=("tagr", name, tuple(str(x) for x in i)))
            else:
                c.add_fact(z3.And(t >= 0, t <= 3), key=("tagr", name, tuple(str(x) for x in i)))
            return N(f(*i), t, hint)

        return Arr(ndim, shape, el, "num", name)
    return Arr(ndim, shape, lambda *i: N(f(*i)), "num", name)


def arr_const(n, shape):
    nd = len(shape)
    return Arr(nd, shape, lambda *i: n, "bool" if not isinstance(n, N) else "num")


def arr_promote(a, ndim):
    """Numpy rank promotion: prepend axes of length 1."""
    if a.ndim == ndim:
        return a
    k = ndim - a.ndim
    r = Arr(ndim, (z3.IntVal(1),) * k + a.shape, lambda *i: a.elem(*i[k:]), a.dtype, a.name, a.intdtype)
    if a.ndim == 1 and ndim == 2 and a.dtype == "num":
        r.rowf = lambda kk: a.row(None)
    return r


def bshape(a, b):
    shp = []
    for da, db in zip(a.shape, b.shape):
        if is_lit(da, 1):
            shp.append(db)
        else:
            shp.append(da)
    return tuple(shp)


def arr_map2(f, a, b, dtype="num"):
    """Elementwise binary op with broadcasting on literal-1 dims."""
    nd = max(a.ndim, b.ndim)
    a0, b0 = a, b
    a, b = arr_promote(a, nd), arr_promote(b, nd)
    shp = bshape(a, b)
    la = [is_lit(d, 1) for d in a.shape]
    lb = [is_lit(d, 1) for d in b.shape]
    zero = z3.IntVal(0)

    def el(*i):
        ia = [zero if l else x for l, x in zip(la, i)]
        ib = [zero if l else x for l, x in zip(lb, i)]
        return f(a.elem(*ia), b.elem(*ib))

    r = Arr(nd, shp, el, dtype)
    # a mask selection combined elementwise with a scalar (or with a selection through the same mask) stays aligned
    ala, alb = getattr(a0, "aligned", None), getattr(b0, "aligned", None)
    if ala is not None and b0.ndim == 0:
        m, g = ala
        r.aligned = (m, lambda *i: f(g(*i), b0.elem()))
    elif alb is not None and a0.ndim == 0:
        m, g = alb
        r.aligned = (m, lambda *i: f(a0.elem(), g(*i)))
    elif ala is not None and alb is not None and ala[0] is alb[0]:
        m, g1, g2 = ala[0], ala[1], alb[1]
        r.aligned = (m, lambda *i: f(g1(*i), g2(*i)))
    return r


def arr_map1(f, a, dtype=None):
    r = Arr(a.ndim, a.shape, lambda *i: f(a.elem(*i)), dtype or a.dtype, intdtype=a.intdtype)
    al = getattr(a, "aligned", None)
    if al is not None:
        m, g = al
        r.aligned = (m, lambda *i: f(g(*i)))  # elementwise image of a mask selection stays aligned with the mask
    return r


def arr_forall(a, pred=None):
    """Bool: all elements (satisfy pred)."""
    c = ctx()
    if all(z3.is_int_value(z3.simplify(d)) for d in a.shape) and a.size().as_long() <= 6:
        dims = [z3.simplify(d).as_long() for d in a.shape]
        terms = []
        for idx in itertools.product(*[range(d) for d in dims]):
            e = a.elem(*idx)
            terms.append(pred(e) if pred else e)
        return z3.And(*terms) if terms else z3.BoolVal(True)
    vs = [z3.Int(c.fresh("q")) for _ in range(a.ndim)]
    c.binders.append(vs)
    try:
        e = a.elem(*vs)
        body = pred(e) if pred else e
    finally:
        c.binders.pop()
    if not vs:
        return body
    return z3.ForAll(vs, z3.Implies(a.in_range(*vs), body))


def arr_exists(a, pred=None):
    return z3.Not(arr_forall(a, (lambda e: z3.Not(pred(e))) if pred else (lambda e: z3.Not(e))))


# ----------------------------------------------------------------------------
# dynamic values
# ----------------------------------------------------------------------------
class Val:
    __slots__ = ("none", "num", "boo", "arr", "tup", "s", "ref", "poly", "py", "kind", "exc", "lazy", "merged_refs")

    def __init__(self, none=None, num=None, boo=None, arr=None, tup=None, s=None, ref=None, poly=None, py=None, kind=None):
        self.none = none  # None (statically not None) | z3 Bool
        self.num = num
        self.boo = boo
        self.arr = arr
        self.tup = tup
        self.s = s
        self.ref = ref
        self.poly = poly
        self.py = py
        self.kind = kind
        self.lazy = None  # poly values: numeric facet to use when one is first needed
        self.merged_refs = None

    # constructors -----------------------------------------------------
    @staticmethod
    def of_num(n):
        return Val(num=n if isinstance(n, N) else N(n))

    @staticmethod
    def of_bool(b):
        if isinstance(b, bool):
            b = z3.BoolVal(b)
        return Val(boo=b)

    @staticmethod
    def of_none():
        return Val(none=z3.BoolVal(True))

    @staticmethod
    def of_arr(a):
        return Val(arr=a)

    @staticmethod
    def of_tup(vs):
        return Val(tup=list(vs))

    @staticmethod
    def of_str(s):
        return Val(s=ctx().str_id(s), py=("str", s))

    @staticmethod
    def fresh(base="v", ref=None):
        nm = ctx().fresh(base)
        return Val(poly=nm, ref=ref if ref is not None else "$" + nm)

    # facet access -----------------------------------------------------
    def is_static_none(self):
        return self.none is not None and z3.is_true(z3.simplify(self.none)) if self.none is not None else False

    def none_term(self):
        if self.none is not None:
            return self.none
        if self.poly is not None and not (ctx().types.get(self.poly) or {}).get("nonnull"):
            self.none = z3.Bool(self.poly + "!none")
            return self.none
        return z3.BoolVal(False)

    def _poly_boo(self):
        b = z3.Bool(self.poly + "!b")
        ctx().add_fact(z3.Implies(z3.Bool(self.poly + "!none"), z3.Not(b)), key=("noneb", self.poly))
        return b

    def _has_primary(self):
        return any(x is not None for x in (self.num, self.boo, self.arr, self.tup, self.s, self.py))

    def get_num(self):
        if self.num is not None:
            return self.num
        if self.boo is not None:
            return N(z3.If(self.boo, z3.IntVal(1), z3.IntVal(0)))
        if self.arr is not None and self.arr.dtype == "num":
            a = self.arr
            return a.elem(*([z3.IntVal(0)] * a.ndim))  # size-1 array used as scalar
        if self.poly is not None:
            if getattr(self, "lazy", None) is not None:
                self.num = self.lazy
                return self.num
            spec = ctx().types.get(self.poly) or {}
            self.num = n_fresh(self.poly + "!n", spec.get("sort", "real"), spec.get("ext", False))
            return self.num
        nm = ctx().fresh("undefnum")
        return n_fresh(nm)

    def get_bool(self):
        """Truthiness."""
        if self.boo is not None:
            b = self.boo
        elif self.num is not None:
            b = z3.Or(n_ne(self.num, N(0)), n_isnan(self.num)) if self.num.t is not None else self.num.r != 0
        elif self.arr is not None:
            a = self.arr
            e = a.elem(*([z3.IntVal(0)] * a.ndim))
            b = e if a.dtype == "bool" else (e.r != 0)
        elif self.tup is not None:
            b = z3.BoolVal(len(self.tup) > 0)
        elif self.py is not None and self.py[0] == "str":
            b = z3.BoolVal(len(self.py[1]) > 0)
        elif self.s is not None:
            b = self.s != ctx().str_id("")
        elif self.poly is not None:
            return self._poly_boo()
        elif self.none is not None:
            return z3.BoolVal(False)
        elif self.py is not None or self.ref is not None:
            b = z3.BoolVal(True)
        else:
            b = z3.Bool(ctx().fresh("undefb"))
        if self.none is not None:
            return z3.And(z3.Not(self.none), b)
        return b

    def get_arr(self):
        if self.arr is not None:
            return self.arr
        if self.poly is not None:
            mk = getattr(ctx(), "make_arr", None)
            if mk is not None:
                a = mk(self.poly)
                if a is not None:
                    self.arr = a
                    return a
        return None

    def get_str(self):
        if self.s is not None:
            return self.s
        if self.poly is not None:
            self.s = z3.Int(self.poly + "!s")
            return self.s
        return z3.Int(ctx().fresh("undefs"))

    def __repr__(self):
        parts = []
        for k in ("none", "num", "boo", "arr", "tup", "s", "ref", "poly", "py"):
            v = getattr(self, k)
            if v is not None:
                parts.append("%s=%s" % (k, v))
        return "Val(" + ", ".join(parts) + ")"


_PH = object()  # placeholder: "this side is None, facet irrelevant"


def _pure_none(v):
    return v.none is not None and not v._has_primary() and v.poly is None and v.ref is None


def _facet(v, f):
    x = getattr(v, f)
    if x is not None:
        return x
    if f == "num" and v.boo is not None:
        return v.get_num()
    if f == "boo" and v.num is not None:
        return None
    if v.poly is not None and not v._has_primary():
        if f == "num":
            return v.get_num()
        if f == "boo":
            return v.get_bool()
        if f == "s":
            return v.get_str()
        if f == "arr":
            return v.get_arr()
        return None
    if _pure_none(v):
        return _PH
    return None


def _native(v, f):
    if getattr(v, f) is not None:
        return True
    if f == "num" and v.boo is not None and v.arr is None:
        return False
    return False


def _arr_ite(c, aa, ba):
    if aa is ba:
        return aa
    if aa.dtype == ba.dtype and {aa.ndim, ba.ndim} == {1, 2}:
        # a vector (n,) merged with a column (m,1) / row (1,m): identified with the flat vector (T2)
        def flat(x):
            if x.ndim == 1:
                return x
            r_, c_ = x.shape
            if is_lit(c_, 1):
                f = Arr(1, (r_,), lambda i: x.elem(i, z3.IntVal(0)), x.dtype)
            elif is_lit(r_, 1):
                f = Arr(1, (c_,), lambda i: x.elem(z3.IntVal(0), i), x.dtype)
            else:
                # symbolic shape: a column when c == 1, a row when r == 1, unknown contents otherwise
                c0 = ctx()
                unk = c0.uf(c0.fresh("flatunk"), z3.IntSort(), z3.RealSort())
                ln = z3.Int(c0.fresh("flatlen"))
                c0.add_fact(z3.And(ln >= 0, z3.Implies(c_ == 1, ln == r_), z3.Implies(z3.And(r_ == 1, c_ != 1), ln == c_)))
                if x.dtype != "num":
                    return None
                f = Arr(1, (ln,), lambda i: n_ite(c_ == 1, x.elem(i, z3.IntVal(0)), n_ite(r_ == 1, x.elem(z3.IntVal(0), i), N(unk(i)))), "num")
            return f
        aa, ba = flat(aa), flat(ba)
        if aa is None or ba is None:
            return None
    if aa.ndim != ba.ndim or aa.dtype != ba.dtype:
        return None
    shp = tuple(x if x.eq(y) else z3.simplify(z3.If(c, x, y)) for x, y in zip(aa.shape, ba.shape))
    if aa.dtype == "bool":
        el = lambda *i: z3.If(c, aa.elem(*i), ba.elem(*i))
    else:
        el = lambda *i: n_ite(c, aa.elem(*i), ba.elem(*i))
    idt = None
    if aa.intdtype is not None or ba.intdtype is not None:
        f = z3.BoolVal(False)
        idt = z3.If(c, aa.intdtype if aa.intdtype is not None else f, ba.intdtype if ba.intdtype is not None else f)
    r = Arr(aa.ndim, shp, el, aa.dtype, intdtype=idt)
    if aa.cnt is not None and ba.cnt is not None:
        r.cnt = z3.If(c, aa.cnt, ba.cnt)
    if aa.dtype == "num" and aa.ndim == 2 and (aa.rowf is not None or ba.rowf is not None):
        r.rowf = lambda k: z3.If(c, aa.row(k), ba.row(k))
    if aa.dtype == "num" and aa.ndim == 1 and (aa.pt is not None or ba.pt is not None):
        r.pt = z3.If(c, aa.row(None), ba.row(None))
    return r


def val_ite(c, a, b):
    """Merge two values under condition c (a if c else b)."""
    if a is b:
        return a
    if a is None:
        a = Val.fresh("undef")
    if b is None:
        b = Val.fresh("undef")
    r = Val()
    nt = z3.simplify(z3.If(c, a.none_term(), b.none_term()))
    r.none = None if z3.is_false(nt) else nt
    for f in ("arr", "num", "boo", "tup", "s"):
        na_, nb_ = _native(a, f), _native(b, f)
        if not na_ and not nb_:
            continue
        if f in ("num", "boo") and r.arr is not None:
            continue
        xa, xb = _facet(a, f), _facet(b, f)
        if f == "arr" and (xa is None) != (xb is None):
            # array on one side, an opaque (unmodelled) value on the other: the opaque side is an unknown array
            # of the same rank (fresh contents and leading dimension) - recorded as an opaque site
            x, other = (xb, a) if xa is None else (xa, b)
            if isinstance(x, Arr) and other.poly is not None and other.arr is None and other.tup is None and x.ndim in (1, 2):
                d0 = z3.Int(ctx().fresh("udim"))
                ctx().add_fact(d0 >= 0)
                u = arr_fresh(ctx().fresh("uarr"), x.ndim, (d0,) + tuple(x.shape[1:]), x.dtype)
                ctx().note("opaque-array-merge", "?", other.poly)
                if xa is None:
                    xa = u
                else:
                    xb = u
        if xa is None or xb is None or (xa is _PH and xb is _PH):
            continue
        if xa is _PH:
            xa = xb
        if xb is _PH:
            xb = xa
        if f == "num":
            r.num = n_ite(c, xa, xb)
        elif f == "boo":
            r.boo = xa if xa is xb else z3.If(c, xa, xb)
        elif f == "s":
            r.s = xa if xa is xb else z3.If(c, xa, xb)
        elif f == "arr":
            r.arr = _arr_ite(c, xa, xb)
        elif f == "tup":
            if len(xa) == len(xb):
                r.tup = [val_ite(c, x, y) for x, y in zip(xa, xb)]
    if r.num is not None and r.boo is not None and (a.boo is None or b.boo is None):
        r.boo = None
    if r.num is None and r.arr is None:
        # scalar on one side, (1-element) array on the other: T2 identifies them
        sa = a.num is not None or (a.arr is not None and a.arr.dtype == "num")
        sb = b.num is not None or (b.arr is not None and b.arr.dtype == "num")
        if sa and sb and (a.num is not None or b.num is not None):
            r.num = n_ite(c, a.get_num(), b.get_num())
    if a.ref is not None and a.ref == b.ref:
        r.ref = a.ref
    elif a.ref is not None and _pure_none(b):
        r.ref = a.ref
    elif b.ref is not None and _pure_none(a):
        r.ref = b.ref
    if a.py is not None and (a.py == b.py or _pure_none(b)):
        r.py = a.py
    elif b.py is not None and _pure_none(a):
        r.py = b.py
    elif a.py is not None and b.py is not None and a.py[0] in ("lambda", "def", "callable_ite") and b.py[0] in ("lambda", "def", "callable_ite"):
        r.py = ("callable_ite", c, a, b)  # a callable chosen by a branch: calls evaluate both and merge
    if not r._has_primary():
        # an untyped value merged with None: the same untyped value, possibly None
        for x, y in ((a, b), (b, a)):
            if x.poly is not None and _pure_none(y) and not x._has_primary():
                r.poly, r.lazy, r.ref = x.poly, getattr(x, "lazy", None), x.ref
                return r
    if not r._has_primary() and r.ref is None:
        if _pure_none(a) and _pure_none(b):
            return a
        r.poly = ctx().fresh("mrg")
        r.ref = "$" + r.poly
        if a.ref is not None and b.ref is not None:
            r.merged_refs = (a.ref, b.ref)  # merge_states gives the merged object the typed fields of both sides
            if a.py is not None and b.py is not None and a.py[0] == "instance" and b.py[0] == "instance" and a.py[1] == b.py[1]:
                r.py = a.py
    if r.num is None and r.poly is not None and r.arr is None:
        la = a.num if a.num is not None else getattr(a, "lazy", None)
        lb = b.num if b.num is not None else getattr(b, "lazy", None)
        if la is not None and lb is not None:
            r.lazy = n_ite(c, la, lb)  # both sides carry a designated numeric value (e.g. RetVal(k))
        elif la is not None and _pure_none(b):
            r.lazy = la
        elif lb is not None and _pure_none(a):
            r.lazy = lb
    return r
