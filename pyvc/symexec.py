"""Symbolic execution with state merging over the real AST of /repo functions,
modular calls (contracts), loop cutting at invariants, first-class exceptions."""
import ast
import z3

from . import npmodel
from .vals import (N, Arr, Val, ctx, val_ite, n_fresh, n_add, n_sub, n_mul, n_div, n_neg, n_lt, n_le, n_eq, n_ne,
                   n_gt, n_ge, n_ite, n_abs, n_round, n_floor, n_uf, arr_fresh, arr_map1, arr_map2, arr_forall, arr_exists,
                   arr_const, _real, is_lit)

ATTR_CLASS = {
    "function_logger": "FunctionLogger", "func_logger": "FunctionLogger",
    "var_transf": "VariableTransformer", "variable_transformer": "VariableTransformer", "var_trans": "VariableTransformer",
    "iteration_history": "IterationHistory", "gp_stats": "IterationHistory",
    "options": "Options", "search_es_hedge": "ESSearchHedge",
}
EXC_PARENTS = {
    "ValueError": "Exception", "TypeError": "Exception", "KeyError": "LookupError", "IndexError": "LookupError",
    "LookupError": "Exception", "AttributeError": "Exception", "LinAlgError": "ValueError", "AssertionError": "Exception",
    "UnboundLocalError": "NameError", "NameError": "Exception", "ZeroDivisionError": "ArithmeticError",
    "ArithmeticError": "Exception", "TargetError": "Exception", "PackageNotFoundError": "Exception",
    "Exception": "BaseException", "RuntimeError": "Exception", "NotImplementedError": "RuntimeError",
}


def exc_matches(exc, handler):
    if handler is None:
        return True
    while exc is not None:
        if exc == handler:
            return True
        exc = EXC_PARENTS.get(exc)
    return False


def is_heap(k):
    return ("." in k) or ("[" in k) or k.startswith("$") or k.startswith("#")


class State:
    def __init__(self, pc, env):
        self.pc = pc
        self.env = env

    def copy(self):
        return State(self.pc, dict(self.env))


class Exit:
    def __init__(self, kind, st, val=None, exc=None, where=None):
        self.kind = kind
        self.st = st
        self.val = val
        self.exc = exc
        self.where = where


class Obligation:
    def __init__(self, name, hyp, goal, kind, func, top=False, props=(), where=None, clause=None):
        self.name = name
        self.hyp = hyp
        self.goal = goal
        self.kind = kind
        self.func = func
        self.top = top
        self.props = tuple(props)
        self.where = where
        self.clause = clause
        self.nfacts = None
        self.stamp = len(ctx().facts)  # facts emitted later concern later program points only


class SpecCtx:
    def __init__(self, pre=None, polarity=1, lets=None, contract=None):
        self.pre = pre
        self.polarity = polarity
        self.lets = lets or {}
        self.contract = contract


class Undecided(Exception):
    pass


class Engine:
    def __init__(self, index, registry):
        self.index = index
        self.registry = registry
        self.obligations = []
        self.func = None
        self.exit_stack = [[]]
        self.spec = None
        self.call_counts = {}
        self.inline_depth = 0
        self.loop_stack = []
        self.cur_contract = None
        self.frames = None
        self.assumptions_used = []
        self.covers = []  # (name, pc) reachability checks
        self.hooks_fired = set()
        self.cuts_fired = set()
        self.assumed_contracts = set()
        self.used_contracts = set()
        self.lemmas_used = set()

    # ------------------------------------------------------------------
    # helpers
    # ------------------------------------------------------------------
    def class_literal(self, cls, attr):
        """Class-level constant (e.g. OptimizeResult._keys): evaluated from the literal in the class body."""
        for mod, (rel, src, tree) in self.index.modules.items():
            for n in tree.body:
                if isinstance(n, ast.ClassDef) and n.name == cls:
                    for m in n.body:
                        if isinstance(m, ast.Assign) and any(isinstance(t, ast.Name) and t.id == attr for t in m.targets):
                            if isinstance(m.value, (ast.List, ast.Tuple)) and all(isinstance(x, ast.Constant) for x in m.value.elts):
                                return Val.of_tup([self.ev_Constant(x, None) for x in m.value.elts])
                            if isinstance(m.value, ast.Constant):
                                return self.ev_Constant(m.value, None)
        return None

    def stmt_ordinal(self, s, cls):
        fi = self.func
        key = "_ord_" + cls.__name__
        lst = getattr(fi, key, None)
        if lst is None:
            lst = [n for n in ast.walk(fi.node) if isinstance(n, cls)]
            lst.sort(key=lambda n: (n.lineno, n.col_offset))
            setattr(fi, key, lst)
        return lst.index(s) if s in lst else -1

    def unbound_on(self):
        c = self.cur_contract
        return c is not None and getattr(c, "unbound_checks", False) and self.inline_depth == 0 and self.func is not None and self.func.qual == c.qual

    def assigned_names(self, fi):
        s = getattr(fi, "_assigned", None)
        if s is None:
            s = set()
            for n in ast.walk(fi.node):
                if isinstance(n, ast.Name) and isinstance(n.ctx, ast.Store):
                    s.add(n.id)
            fi._assigned = s
        return s

    def infeasible(self, f):
        from .solve import relevant_facts, _syms
        from .vals import rnd_axioms
        cache = {}
        rel, cur = relevant_facts(ctx().facts, _syms(f, cache), cache, hops=2)
        s = z3.Solver()
        s.set("rlimit", 3000000)
        s.set("timeout", 8000)
        for x in rel:
            s.add(x)
        if "rnd" in cur:
            for x in rnd_axioms():
                s.add(x)
        s.add(f)
        return s.check() == z3.unsat

    def rel(self, clause):
        """Is this clause part of the property being checked?  (untagged clauses belong to every property)"""
        pid = getattr(self, "pid", None)
        pr = getattr(clause, "props", ()) or ()
        if pid is None or not pr:
            return True
        from .contracts import DEPS
        return bool(set(pr) & DEPS.get(pid, {pid}))

    def where(self, node):
        return "%s:%s" % (self.func.path if self.func else "?", getattr(node, "lineno", "?"))

    def oblige(self, name, st, goal, kind, top=False, props=(), node=None, clause=None):
        full = "%s::%s" % (self.func.qual.replace("pybads.", "", 1) + ("#" + self.variant if getattr(self, "variant", None) else ""), name)
        self.obligations.append(Obligation(full, st.pc, goal, kind, self.func.qual, top, props, self.where(node) if node is not None else None, clause))
        f = getattr(self, "_forced", None)
        if f:
            self.obligations[-1].forced = ("unknown", f)
            self._forced = None

    def push_exit(self, e):
        self.exit_stack[-1].append(e)

    def type_spec(self, path):
        p = path.split("@")[0].split("~!")[0]
        if p.endswith("!a"):
            p = p[:-2]
        t = ctx().types.get(p)
        if t is None and path.startswith("$"):
            # a field read through an intermediate object that was havocked (versioned reference): the declared type of
            # the original path still applies
            org = getattr(ctx(), "origin", {})
            for k, v in org.items():
                if path.startswith(k) and len(path) > len(k) and path[len(k)] in ".[":
                    return self.type_spec(v + path[len(k):])
        return t

    def make_typed(self, name, path):
        spec = self.type_spec(path)
        c = ctx()
        if spec:
            c.types[name] = spec
            if "const" in spec:
                cv = spec["const"]
                if isinstance(cv, bool):
                    return Val.of_bool(cv)
                if cv is None:
                    return Val.of_none()
                if isinstance(cv, str):
                    return Val.of_str(cv)
                return Val.of_num(N(cv))
            if spec.get("bool"):
                return Val(boo=z3.Bool(name))
            if spec.get("sort") and not spec.get("arrspec"):
                return Val(num=n_fresh(name, spec["sort"], spec.get("ext", False)), poly=None if spec.get("nonnull") else name)
            if spec.get("arrspec"):
                nd, shp, dt, ext = spec["arrspec"]
                shape = tuple(self.spec_shape(s) for s in shp)
                v = Val(arr=arr_fresh(name, nd, shape, dt, ext))
                if not spec.get("nonnull"):
                    v.none = z3.Bool(name + "!none")
                v.ref = path if "@" not in name else "$" + name
                return v
            if spec.get("str"):
                return Val(s=z3.Int(name))
            if spec.get("obj"):
                # object with declared (typed) fields: a fresh reference whose field paths carry the declared types
                from .contracts import norm_path
                ref = path if "!" not in name else "$" + name
                for field, fspec in (spec.get("fields") or {}).items():
                    c.types[norm_path("X." + field).replace("X.", ref + ".", 1)] = fspec
                return Val(ref=ref, py=("instance", spec["obj"]))
        return None

    def spec_shape(self, s):
        if s is None:
            d = z3.Int(ctx().fresh("dim"))
            ctx().add_fact(d >= 0)
            return d
        if isinstance(s, int):
            return z3.IntVal(s)
        if z3.is_expr(s):
            return s
        # expression string evaluated in the entry state (unknown names are an error, never a silent fresh symbol)
        old = self.spec
        self.spec = SpecCtx(pre=self.entry_state, polarity=0, lets={}, contract=self.cur_contract)
        try:
            v = self.ev(ast.parse(s, mode="eval").body, self.entry_state.copy())
        finally:
            self.spec = old
        return self.as_int(v)

    def as_int(self, v):
        n = v.get_num()
        return n.r if z3.is_int(n.r) else z3.ToInt(n.r)

    def lookup(self, st, path):
        if path in st.env:
            return st.env[path]
        ver = self.version(st, path)
        name = path if ver == 0 else "%s@%d" % (path, ver)
        c = ctx()
        if name in c.entry:
            return c.entry[name]
        v = self.make_typed(name, path)
        if v is None:
            # untyped intermediate object: addressed by its path (fields below it are versioned through version())
            v = Val(poly=name, ref=path)
        elif v.ref is None and v.arr is None and v.num is None and v.boo is None:
            v.ref = path
        c.entry[name] = v
        return v

    def version(self, st, path):
        best = 0
        for k, v in st.env.items():
            if k.startswith("#ver:") and path.startswith(k[5:]) and len(path) > len(k) - 5 and path[len(k) - 5] in ".[":
                best = max(best, v)
        return best

    def havoc_path(self, st, path):
        nm = ctx().fresh(path + "~")
        v = self.make_typed(nm, path)
        if v is None:
            v = Val(poly=nm, ref="$" + nm)
        st.env[path] = v
        # children of this path are unknown too
        self.havoc_prefix(st, path, keep_self=True)
        return v

    def havoc_prefix(self, st, prefix, keep_self=False):
        for k in list(st.env):
            if k.startswith(prefix) and k != prefix and (k[len(prefix)] in ".["):
                del st.env[k]
        st.env["#ver:" + prefix] = next(ctx().counter) + 1

    def merge_states(self, c, a, b):
        """State a if c else b (both reachable under their pcs)."""
        if a is None:
            return b
        if b is None:
            return a
        env = {}
        vermis = []
        merged_objs = []
        keys = list(a.env)
        for k in b.env:
            if k not in a.env:
                keys.append(k)
        for k in keys:
            if k.startswith("#undef:"):
                continue
            if k.startswith("#ver:"):
                va, vb = a.env.get(k, 0), b.env.get(k, 0)
                env[k] = va if va == vb else next(ctx().counter) + 1
                if va != vb:
                    vermis.append(k[5:])
                continue
            va = a.env.get(k)
            vb = b.env.get(k)
            if va is vb:
                env[k] = va
                continue
            if is_heap(k):
                if va is None:
                    va = self.lookup(a, k)
                if vb is None:
                    vb = self.lookup(b, k)
            env[k] = val_ite(c, va, vb)
            mr = getattr(env[k], "merged_refs", None)
            if mr is not None:
                merged_objs.append((env[k].ref, mr[0], mr[1]))
        # definedness of locals (opt-in unbound-local checks): a local bound on one side only may be unbound afterwards
        if self.unbound_on():
            for k in keys:
                if k.startswith("#undef:"):
                    k = k[7:]
                elif is_heap(k) or k.startswith("#"):
                    continue
                ua = z3.BoolVal(True) if k not in a.env else a.env.get("#undef:" + k, z3.BoolVal(False))
                ub = z3.BoolVal(True) if k not in b.env else b.env.get("#undef:" + k, z3.BoolVal(False))
                u = z3.simplify(z3.If(c, ua, ub))
                if z3.is_false(u):
                    env.pop("#undef:" + k, None)
                else:
                    env["#undef:" + k] = u
        # two different objects merged into one reference: its declared (typed) fields are the per-branch fields
        for mref, ra, rb in merged_objs:
            sufs = {}
            for tp, tsp in list(ctx().types.items()):
                for rr in (ra, rb):
                    if tp.startswith(rr) and len(tp) > len(rr) and tp[len(rr)] in ".[" and "@" not in tp and "~" not in tp:
                        sufs.setdefault(tp[len(rr):], tsp)
            for suf, tsp in sufs.items():
                ctx().types.setdefault(mref + suf, tsp)
                env[mref + suf] = val_ite(c, self.lookup(a, ra + suf), self.lookup(b, rb + suf))
        # fields below a prefix havocked on one side only: the declared (typed) fields keep their per-branch values
        for pre in vermis:
            for tp in list(ctx().types):
                if tp.startswith(pre) and len(tp) > len(pre) and tp[len(pre)] in ".[" and "@" not in tp and "~" not in tp and tp not in env:
                    if "const" in ctx().types[tp]:
                        continue
                    env[tp] = val_ite(c, self.lookup(a, tp), self.lookup(b, tp))
        return State(z3.simplify(z3.Or(a.pc, b.pc)), env)

    def merge_many(self, items):
        """items: list of State with disjoint pcs -> merged State or None."""
        items = [s for s in items if s is not None and not z3.is_false(z3.simplify(s.pc))]
        if not items:
            return None
        acc = items[-1]
        for s in reversed(items[:-1]):
            acc = self.merge_states(s.pc, s, acc)
        return acc

    # ------------------------------------------------------------------
    # statements
    # ------------------------------------------------------------------
    def exec_block(self, stmts, st):
        for s in stmts:
            if st is None:
                return None
            st = self.exec_stmt(s, st)
        return st

    def dead(self, st):
        return st is None or z3.is_false(z3.simplify(st.pc))

    def exec_stmt(self, s, st):
        st = self.exec_stmt0(s, st)
        c = self.cur_contract
        if c is not None and c.chooses and self.inline_depth == 0 and st is not None and isinstance(s, (ast.Assign, ast.AugAssign, ast.Expr)) \
                and self.func is not None and self.func.qual == c.qual:
            for ch in c.chooses.get(ast.unparse(s), []):
                if self.rel(type("C", (), {"props": ch["props"]})):
                    self.apply_choose(ch, st, s)
                self.hooks_fired.add("choose:" + ast.unparse(s))
        if c is not None and c.hooks and self.inline_depth == 0 and st is not None and isinstance(s, (ast.Assign, ast.AugAssign, ast.Expr)):
            h = c.hooks.get(ast.unparse(s))
            if h:
                for k, node in h.items():
                    st.env[k] = self.ev_spec(node, st, pre=self.entry_state)
                self.hooks_fired.add(ast.unparse(s))
        if c is not None and c.cuts and self.inline_depth == 0 and st is not None and self.func is not None and self.func.qual == c.qual:
            txt = None
            for k, cut in enumerate(c.cuts):
                if k in self.cuts_fired:
                    continue
                if txt is None:
                    txt = " ".join(ast.unparse(s).split())
                if txt.startswith(cut["key"]):
                    self.cuts_fired.add(k)
                    self.apply_cut(k, cut, st, s)
        return st

    def apply_choose(self, ch, st, node):
        lam = ch["pred"]
        name = lam.args.args[0].arg
        when = self.truth(self.ev_spec(ch["when"], st, pre=self.entry_state, polarity=-1))
        # 1. existence (goal position: z3 finds the witness)
        q = z3.Int(ctx().fresh("q_" + name))
        s2 = st.copy()
        s2.env[name] = Val.of_num(N(q))
        ctx().binders.append([q])
        try:
            body = self.truth(self.ev_spec(lam.body, s2, pre=self.entry_state, polarity=0))
        finally:
            ctx().binders.pop()
        self.oblige("choose[%s]::exists" % ch["var"], st, z3.Implies(when, z3.Exists([q], body)), "choose", False, ch["props"], node)
        # 2. bind the ghost to a witness
        w = z3.Int(ctx().fresh("w_" + name))
        s3 = st.copy()
        s3.env[name] = Val.of_num(N(w))
        fact = self.truth(self.ev_spec(lam.body, s3, pre=self.entry_state, polarity=-1))
        st.pc = z3.And(st.pc, z3.Implies(when, fact))
        st.env[ch["var"]] = Val.of_num(N(w))

    def apply_cut(self, k, cut, st, node):
        for u in cut.get("use", []):
            # explicit instances of separately proved scalar lemmas: hypotheses for the clauses below
            g = self.truth(self.ev_spec(u, st, pre=self.entry_state, polarity=-1))
            st.pc = z3.And(st.pc, g)
        for cl in cut["clauses"]:
            g = self.eval_clause(cl, st, pre=self.entry_state, polarity=1)
            self.oblige("cut#%d[%s]::%s" % (k, cut["var"], cl.name), st, g, "cut", cl.top, cut["props"], node, cl)
        if cut["spec"] is not None:
            nm = ctx().fresh("cut_" + cut["var"])
            nv = self.build_from_spec(cut["spec"], nm, st)
            st.env[cut["var"]] = nv
        for cl in cut["clauses"]:
            g = self.eval_clause(cl, st, pre=self.entry_state, polarity=-1)
            st.pc = z3.And(st.pc, g)

    def exec_stmt0(self, s, st):
        c = self.cur_contract
        if c is not None and c.opaque_stmts and self.inline_depth == 0 and isinstance(s, (ast.Assign, ast.AugAssign)) and self.func.qual == c.qual:
            txt = " ".join(ast.unparse(s).split())
            if any(txt.startswith(p) for p in c.opaque_stmts):
                ctx().note("opaque-stmt", self.where(s), txt[:60])
                for t in (s.targets if isinstance(s, ast.Assign) else [s.target]):
                    if isinstance(t, ast.Subscript):
                        kind, key = self.lvalue(t.value, st)
                        if kind in ("local", "heap"):
                            st.env[key] = Val.fresh("opq")
                    else:
                        tv = None
                        if isinstance(t, ast.Name) and self.type_spec(t.id) is not None:
                            # declared shape/sort of the opaque value (an assumption listed with the opaque site)
                            tv = self.make_typed(ctx().fresh(t.id), t.id)
                        self.assign(t, tv if tv is not None else Val.fresh("opq"), st)
                return st
        m = getattr(self, "st_" + type(s).__name__, None)
        if m is None:
            ctx().note("unmodelled-stmt", self.where(s), type(s).__name__)
            for n in ast.walk(s):
                if isinstance(n, ast.Name) and isinstance(n.ctx, ast.Store):
                    st.env[n.id] = Val.fresh(n.id)
            return st
        return m(s, st)

    def st_Pass(self, s, st):
        return st

    def st_Import(self, s, st):
        return st

    st_ImportFrom = st_Import
    st_Global = st_Import
    st_Nonlocal = st_Import

    def st_Expr(self, s, st):
        if isinstance(s.value, ast.Constant):
            return st
        self.ev(s.value, st)
        return st

    def st_Assert(self, s, st):
        t = self.truth(self.ev(s.test, st))
        bad = st.copy()
        bad.pc = z3.And(st.pc, z3.Not(t))
        ex = Exit("raise", bad, exc="AssertionError", where=self.where(s))
        ex.tag = "assert#%d" % self.stmt_ordinal(s, ast.Assert)
        self.push_exit(ex)
        st.pc = z3.And(st.pc, t)
        return st

    def st_Assign(self, s, st):
        v = self.ev(s.value, st)
        for t in s.targets:
            self.assign(t, v, st)
        return st

    def st_AnnAssign(self, s, st):
        if s.value is not None:
            self.assign(s.target, self.ev(s.value, st), st)
        return st

    def st_AugAssign(self, s, st):
        load = ast.copy_location(_to_load(s.target), s)
        v = self.binop(s.op, self.ev(load, st), self.ev(s.value, st), s)
        self.assign(s.target, v, st)
        return st

    def st_Delete(self, s, st):
        ctx().note("unmodelled-stmt", self.where(s), "del")
        return st

    def st_FunctionDef(self, s, st):
        st.env[s.name] = Val(py=("def", s, None))
        return st

    def st_Return(self, s, st):
        v = self.ev(s.value, st) if s.value is not None else Val.of_none()
        self.push_exit(Exit("return", st, val=v, where=self.where(s)))
        return None

    def st_Break(self, s, st):
        self.push_exit(Exit("break", st))
        return None

    def st_Continue(self, s, st):
        self.push_exit(Exit("continue", st))
        return None

    def st_Raise(self, s, st):
        exc = "Exception"
        val = None
        if s.exc is None:
            exc = self.handler_exc[-1] if getattr(self, "handler_exc", None) else "Exception"
            val = Val(py=("reraise",))
        else:
            e = s.exc
            if isinstance(e, ast.Call):
                e = e.func
            if isinstance(e, ast.Name):
                exc = e.id
            elif isinstance(e, ast.Attribute):
                exc = e.attr
        ex = Exit("raise", st, exc=exc, val=val, where=self.where(s))
        ex.tag = "raise#%d" % self.stmt_ordinal(s, ast.Raise)
        self.push_exit(ex)
        return None

    def st_If(self, s, st):
        t = z3.simplify(self.truth(self.ev(s.test, st)))
        if z3.is_true(t):
            return self.exec_block(s.body, st)
        if z3.is_false(t):
            return self.exec_block(s.orelse, st)
        c = self.cur_contract
        if c is not None and getattr(c, "prune_branches", False) and self.inline_depth == 0:
            # dead-branch elimination by a small solver query (opt-in per contract): an unsatisfiable branch is not executed
            if self.infeasible(z3.And(st.pc, t)):
                ctx().note("dead-branch", self.where(s), "then-branch of `if %s` is unreachable" % ast.unparse(s.test)[:60])
                return self.exec_block(s.orelse, st)
            if self.infeasible(z3.And(st.pc, z3.Not(t))):
                ctx().note("dead-branch", self.where(s), "else-branch of `if %s` is unreachable" % ast.unparse(s.test)[:60])
                return self.exec_block(s.body, st)
        a = st.copy()
        a.pc = z3.And(st.pc, t)
        b = st
        b.pc = z3.And(st.pc, z3.Not(t))
        a = self.exec_block(s.body, a)
        b = self.exec_block(s.orelse, b)
        if a is None:
            return b
        if b is None:
            return a
        return self.merge_states(t, a, b)

    def st_With(self, s, st):
        ctx().note("unmodelled-stmt", self.where(s), "with")
        return self.exec_block(s.body, st)

    def st_Try(self, s, st):
        self.exit_stack.append([])
        body_out = self.exec_block(s.body, st.copy())
        caught = self.exit_stack.pop()
        outs = []
        if body_out is not None:
            body_out = self.exec_block(s.orelse, body_out)
            outs.append(body_out)
        for e in caught:
            if e.kind != "raise":
                self.push_exit(e)
                continue
            handled = False
            for h in s.handlers:
                hname = None
                if h.type is not None:
                    hname = h.type.id if isinstance(h.type, ast.Name) else getattr(h.type, "attr", None)
                if exc_matches(e.exc, hname):
                    hs = e.st.copy()
                    if h.name:
                        hs.env[h.name] = Val(poly=ctx().fresh("exc"), ref="$exc%d" % next(ctx().counter), py=("exc", e.exc))
                    if not hasattr(self, "handler_exc"):
                        self.handler_exc = []
                    self.handler_exc.append(e.exc)
                    # re-raise inside handler must carry the original exception identity
                    self.exit_stack.append([])
                    ho = self.exec_block(h.body, hs)
                    inner = self.exit_stack.pop()
                    self.handler_exc.pop()
                    for ie in inner:
                        if ie.kind == "raise" and ie.val is not None and ie.val.py == ("reraise",):
                            ie.val = e.val
                            ie.exc = e.exc
                            ie.same_as = e
                        self.push_exit(ie)
                    outs.append(ho)
                    handled = True
                    break
                elif e.exc in ("Exception", "TargetError") and hname is not None and exc_matches(hname, e.exc):
                    # a generic exception may or may not be of the handler's class: both happen
                    ctx().note("exc-split", self.where(s), "generic exception vs handler %s" % hname)
            if not handled:
                self.push_exit(e)
        if s.finalbody:
            ctx().note("unmodelled-stmt", self.where(s), "finally")
        return self.merge_many(outs)

    # loops --------------------------------------------------------------
    def loop_spec(self, node):
        k = self.func.loops.index(node) if node in self.func.loops else None
        c = self.cur_contract
        if c is not None and k is not None and self.inline_depth == 0:
            return k, c.loops.get(k)
        return k, None

    def st_While(self, s, st):
        return self.run_loop(s, st, guard=lambda stt: self.truth(self.ev(s.test, stt)), pre_body=None)

    def st_For(self, s, st):
        it = s.iter
        if isinstance(it, ast.Call) and isinstance(it.func, ast.Name) and it.func.id == "range":
            args = [self.ev(a, st) for a in it.args]
            if len(args) == 1:
                lo, hi = z3.IntVal(0), self.as_int(args[0])
            else:
                lo, hi = self.as_int(args[0]), self.as_int(args[1])
            if len(args) == 3:
                ctx().note("unmodelled-expr", self.where(s), "range step")
            idx = "$i%d" % s.lineno
            st.env[idx] = Val.of_num(N(lo))

            def guard(stt):
                return stt.env[idx].get_num().r < hi

            def pre_body(stt):
                self.assign(s.target, stt.env[idx], stt)
                stt.env[idx] = Val.of_num(N(stt.env[idx].get_num().r + 1))

            def at_head(stt):
                # expose the upcoming index under the target name for invariants
                self.assign(s.target, stt.env[idx], stt)
                i = stt.env[idx].get_num().r
                return z3.And(i >= lo, i <= z3.If(hi >= lo, hi, lo))

            return self.run_loop(s, st, guard, pre_body, extra_mod=[idx], head_fact=at_head, extra_names=_target_names(s.target))
        seq = self.ev(it, st)
        a = seq.get_arr()
        idx = "$i%d" % s.lineno
        st.env[idx] = Val.of_num(N(z3.IntVal(0)))
        if a is not None and a.ndim >= 1:
            n = a.shape[0]
        elif seq.tup is not None:
            n = z3.IntVal(len(seq.tup))
        else:
            n = z3.Int(ctx().fresh("len"))
            ctx().add_fact(n >= 0)

        def guard(stt):
            return stt.env[idx].get_num().r < n

        def arr_head(stt):
            # the number of completed iterations is visible to invariants as `loop_index`
            stt.env["loop_index"] = stt.env[idx]
            i_ = stt.env[idx].get_num().r
            return z3.And(i_ >= 0, i_ <= n)

        def pre_body(stt):
            i = stt.env[idx].get_num().r
            if a is not None and a.ndim >= 1:
                item = self.arr_index(a, [Val.of_num(N(i))])
            elif seq.tup is not None and all(x is not None for x in seq.tup):
                item = Val.fresh("item")
                for k, x in enumerate(seq.tup):
                    item = val_ite(i == k, x, item)
            else:
                item = Val.fresh("item")
            self.assign(s.target, item, stt)
            stt.env[idx] = Val.of_num(N(i + 1))

        return self.run_loop(s, st, guard, pre_body, extra_mod=[idx], head_fact=arr_head, extra_names=_target_names(s.target))

    def run_loop(self, s, st, guard, pre_body, extra_mod=(), head_fact=None, extra_names=()):
        from . import frames

        k, spec = self.loop_spec(s)
        tag = "loop#%s" % k
        # 1. invariant on entry
        if head_fact:
            head_fact(st)
        if spec:
            for gk, gexpr in spec.ghost.items():
                st.env["ghost." + gk] = self.ev_spec(ast.parse(gexpr, mode="eval").body, st, pre=self.entry_state)
        if spec:
            for inv in spec.invariants:
                if not self.rel(inv):
                    continue
                g = self.eval_clause(inv, st, pre=self.entry_state, polarity=1)
                self.oblige("%s::inv-entry::%s" % (tag, inv.name), st, g, "inv-entry", inv.top, inv.props or spec.props, s, inv)
        # 2. havoc
        locals_mod, heap_mod, prefix_mod = frames.loop_writes(self, s, st)
        head = st.copy()
        kept_shapes = {}
        for nm in list(locals_mod) + list(extra_mod) + list(extra_names):
            if self.unbound_on() and not is_heap(nm) and (nm not in head.env or ("#undef:" + nm) in head.env):
                # possibly unbound before the loop and assigned in it: definedness at the head is what the invariant says
                head.env["#undef:" + nm] = z3.Bool(ctx().fresh("undef_" + nm))
            if nm in head.env or True:
                old = head.env.get(nm)
                nv = Val.fresh(nm)
                if self.type_spec(nm) is not None and self.inline_depth == 0:
                    tv = self.make_typed(ctx().fresh(nm), nm)
                    if tv is not None:
                        head.env[nm] = tv
                        continue
                # keep sort information for numeric counters
                if old is not None and old.num is not None and old.arr is None and old.boo is None:
                    sort = "int" if old.num.is_int() else "real"
                    nv = Val.of_num(n_fresh(ctx().fresh(nm), sort, old.num.t is not None))
                elif old is not None and old.boo is not None and old.num is None and old.none is None:
                    nv = Val.of_bool(z3.Bool(ctx().fresh(nm)))
                elif old is not None and old.arr is not None and old.arr.ndim in (1, 2):
                    # arrays stay arrays: fresh contents and fresh leading dimension, trailing dimension kept
                    # (kept dimension is re-checked at every back edge: obligation shape-preserved)
                    oa = old.arr
                    d0 = z3.Int(ctx().fresh(nm + "!rows"))
                    ctx().add_fact(d0 >= 0)
                    shape = (d0,) + tuple(oa.shape[1:])
                    na = arr_fresh(ctx().fresh(nm), oa.ndim, shape, oa.dtype)
                    nv = Val(arr=na)
                    if old.none is not None:
                        nv.none = z3.Bool(ctx().fresh(nm + "!none"))
                    kept_shapes[nm] = tuple(oa.shape[1:])
                head.env[nm] = nv
        for p in heap_mod:
            self.havoc_path(head, p)
        for p in prefix_mod:
            self.havoc_prefix(head, p)
        if spec:
            for pexpr in spec.modifies_extra:
                kind, key = self.lvalue(ast.parse(pexpr, mode="eval").body, head)
                if kind == "heap":
                    self.havoc_path(head, key)
        hf = head_fact(head) if head_fact else None
        if hf is not None:
            head.pc = z3.And(head.pc, hf)
        # 3. assume invariant
        if spec:
            for inv in spec.invariants:
                if not self.rel(inv):
                    continue
                g = self.eval_clause(inv, head, pre=self.entry_state, polarity=-1)
                head.pc = z3.And(head.pc, g)
        v0 = None
        if spec and spec.variant and self.rel(type("C", (), {"props": spec.props or ("C03",)})):
            v0 = [self.ev_spec(v, head, pre=self.entry_state).get_num() for v in spec.variant]
        g = z3.simplify(guard(head))
        body_st = head.copy()
        body_st.pc = z3.And(head.pc, g)
        exit_st = head
        exit_st.pc = z3.And(head.pc, z3.Not(g))
        self.covers.append(("%s::%s::body-reachable" % (self.func.qual, tag), body_st.pc))
        # 4. body
        self.exit_stack.append([])
        if pre_body:
            pre_body(body_st)
        out = self.exec_block(s.body, body_st)
        exits = self.exit_stack.pop()
        backs = [out] if out is not None else []
        breaks = []
        for e in exits:
            if e.kind == "continue":
                backs.append(e.st)
            elif e.kind == "break":
                breaks.append(e.st)
            else:
                self.push_exit(e)
        for b in backs:
            if self.dead(b):
                continue
            if head_fact:
                head_fact(b)
            for nm, dims in kept_shapes.items():
                bv = b.env.get(nm)
                ba = bv.arr if bv is not None else None
                if ba is None or ba.ndim != len(dims) + 1:
                    ok = bv.none_term() if (bv is not None and bv.none is not None and ba is None) else z3.BoolVal(False)
                else:
                    ok = z3.And(*[x == y for x, y in zip(ba.shape[1:], dims)]) if dims else z3.BoolVal(True)
                    if bv.none is not None:
                        ok = z3.Or(bv.none, ok)
                if not z3.is_true(z3.simplify(ok)):
                    self.oblige("%s::shape-preserved::%s" % (tag, nm), b, ok, "inv-preserved", False, spec.props if spec else (), s)
            if spec:
                for inv in spec.invariants:
                    if not self.rel(inv):
                        continue
                    gl = self.eval_clause(inv, b, pre=self.entry_state, polarity=1)
                    self.oblige("%s::inv-preserved::%s" % (tag, inv.name), b, gl, "inv-preserved", inv.top, inv.props or spec.props, s, inv)
                if v0 is not None:
                    v1 = [self.ev_spec(v, b, pre=self.entry_state).get_num() for v in spec.variant]
                    g_next = guard(b.copy())  # only iterations that continue need to decrease
                    self.oblige("%s::variant-decreases" % tag, b, z3.Implies(g_next, lex_decrease(v0, v1)), "variant", False, spec.props or ("C03",), s)
        # 5. after loop: normal exit + breaks  (else-clause ignored when absent)
        if s.orelse:
            exit_st = self.exec_block(s.orelse, exit_st)
        return self.merge_many([x for x in [exit_st] + breaks if x is not None])

    # ------------------------------------------------------------------
    # assignment
    # ------------------------------------------------------------------
    def lvalue(self, t, st):
        if isinstance(t, ast.Name):
            return "local", t.id
        if isinstance(t, ast.Attribute):
            base = self.ev(t.value, st)
            if base.ref is not None:
                return "heap", base.ref + "." + t.attr
            return None, None
        if isinstance(t, ast.Subscript):
            base = self.ev(t.value, st)
            key = _const_key(t.slice)
            if key is not None and base.get_arr() is None and base.ref is not None and not (isinstance(key, int) and base.tup is not None):
                return "heap", base.ref + "[" + repr(key) + "]"
            return "elem", t
        return None, None

    def assign(self, t, v, st):
        if isinstance(t, (ast.Tuple, ast.List)):
            if v.tup is not None and len(v.tup) == len(t.elts):
                for tt, vv in zip(t.elts, v.tup):
                    self.assign(tt, vv, st)
            elif v.py is not None and v.py[0] == "target_ret" and len(t.elts) == 2:
                # (value, SD) pair returned by the k-th target call: the ghost sequences RetVal / RetSD
                from contracts import models
                k1 = v.py[1]
                a0, a1 = Val.fresh("tret_val"), Val.fresh("tret_sd")
                a0.lazy, a1.lazy = N(models.retval(k1)), N(models.retsd(k1))
                self.assign(t.elts[0], a0, st)
                self.assign(t.elts[1], a1, st)
            else:
                a = v.get_arr()
                for i, tt in enumerate(t.elts):
                    if a is not None and a.ndim >= 1:
                        self.assign(tt, self.arr_index(a, [Val.of_num(N(z3.IntVal(i)))]), st)
                    else:
                        self.assign(tt, Val.fresh("unpack"), st)
            return
        if isinstance(t, ast.Starred):
            self.assign(t.value, Val.fresh("star"), st)
            return
        if isinstance(t, ast.Subscript):
            bv = self.ev(t.value, st)
            if bv.py is not None and bv.py[0] == "instance" and bv.py[1] in ("OptimizeResult",):
                fi = self.index.method(bv.py[1], "__setitem__")
                if fi is not None and self.inline_depth < 4:
                    from . import calls
                    calls.inline_def(self, fi.node, fi, [self.ev(t.slice, st), v], {}, st, t, self_val=bv)
                    return
        kind, key = self.lvalue(t, st)
        if kind == "local":
            st.env[key] = v
            st.env.pop("#undef:" + key, None)
        elif kind == "heap":
            st.env[key] = v
            self.drop_children(st, key, v)
        elif kind == "elem":
            self.store_elem(t, v, st)
        else:
            ctx().note("unmodelled-store", self.where(t), ast.unparse(t))

    def drop_children(self, st, key, v):
        # rebinding a container path: children now live under the new value's ref
        if v.ref is not None and v.ref != key:
            for k in list(st.env):
                if k.startswith(key) and k != key and k[len(key)] in ".[":
                    del st.env[k]
        elif v.ref is None:
            for k in list(st.env):
                if k.startswith(key) and k != key and k[len(key)] in ".[":
                    del st.env[k]
            st.env["#ver:" + key] = next(ctx().counter) + 1

    def store_elem(self, t, v, st):
        """a[idx] = v  as a functional update of the variable/path holding a."""
        kind, key = self.lvalue(t.value, st)
        base = self.ev(t.value, st)
        a = base.get_arr()
        if kind not in ("local", "heap"):
            ctx().note("unmodelled-store", self.where(t), ast.unparse(t))
            return
        if a is None:
            if base.ref is not None:
                # dynamic key into a dict / list: whole container unknown
                self.havoc_prefix(st, base.ref)
                ctx().note("dynamic-store", self.where(t), ast.unparse(t))
            else:
                st.env[key] = Val.fresh("upd")
            return
        new = npmodel.store(self, a, t.slice, v, st, t)
        if new is None:
            ctx().note("unmodelled-store", self.where(t), ast.unparse(t))
            new = Arr(a.ndim, a.shape, arr_fresh(ctx().fresh("upd"), a.ndim, a.shape, a.dtype)._elem, a.dtype)
        nv = Val(arr=new, ref=base.ref, none=None)
        st.env[key] = nv

    # ------------------------------------------------------------------
    # expressions
    # ------------------------------------------------------------------
    def truth(self, v):
        return v.get_bool()

    def ev(self, e, st):
        m = getattr(self, "ev_" + type(e).__name__, None)
        if m is None:
            ctx().note("unmodelled-expr", self.where(e), type(e).__name__)
            return Val.fresh("opaque")
        return m(e, st)

    def ev_Constant(self, e, st):
        v = e.value
        if v is None:
            return Val.of_none()
        if isinstance(v, bool):
            return Val.of_bool(v)
        if isinstance(v, (int, float)):
            return Val.of_num(N(v))
        if isinstance(v, str):
            return Val.of_str(v)
        return Val.fresh("const")

    def ev_Name(self, e, st):
        nm = e.id
        if self.spec is not None and nm in self.spec.lets:
            return self.ev(self.spec.lets[nm], st)
        if nm in st.env:
            if self.spec is None and ("#undef:" + nm) in st.env and self.unbound_on():
                # the local is unbound on some of the paths merged into this state: reading it raises there
                npmodel.raise_if(self, st, st.env.pop("#undef:" + nm), "UnboundLocalError", e)
            return st.env[nm]
        if self.spec is None and self.unbound_on() and nm in self.assigned_names(self.func) and nm not in self.func.params:
            npmodel.raise_here(self, st, "UnboundLocalError", e)
            return Val.fresh("unbound_" + nm)
        if nm in ("np", "numpy", "math", "sys", "copy", "logging", "os", "rnd", "scipy", "gpr", "plt"):
            return Val(py=("module", nm))
        if nm in ("True", "False"):
            return Val.of_bool(nm == "True")
        if nm == "ghost":
            return Val(ref="ghost")
        if nm == "logger":
            return Val(py=("module", "logging"))
        if self.index.function(nm) is not None:
            return Val(py=("func", nm))
        if nm in self.index.classes:
            return Val(py=("class", nm))
        if nm in EXC_PARENTS or nm in ("Exception", "BaseException"):
            return Val(py=("excclass", nm))
        if nm in npmodel.BUILTINS:
            return Val(py=("builtin", nm))
        if self.spec is not None:
            if self.func is not None and nm in self.assigned_names(self.func):
                if self.type_spec(nm) is not None:
                    tv = self.make_typed(ctx().fresh("unbound_" + nm), nm)
                    if tv is not None:
                        return tv
                return Val.fresh("unbound_" + nm)
            raise Undecided("unknown name %r in contract expression (%s)" % (nm, self.func.qual if self.func else "?"))
        ctx().note("unbound-name", self.where(e), nm)
        return self.lookup(st, "$global." + nm)

    def ev_Attribute(self, e, st):
        base = self.ev(e.value, st)
        at = e.attr
        if base.py is not None and base.py[0] == "module":
            return npmodel.module_attr(self, base.py[1], at, e)
        a = base.get_arr() if (base.arr is not None or (base.poly and self.type_spec(base.poly))) else None
        if a is not None and at in ("shape", "size", "ndim", "T", "flat"):
            return npmodel.arr_attr(self, a, at)
        if base.py is not None and base.py[0] == "class":
            lit = self.class_literal(base.py[1], at)
            if lit is not None:
                return lit
            return Val(py=("classattr", base.py[1], at), ref="class:%s.%s" % (base.py[1], at))
        if base.ref is not None:
            return self.lookup(st, base.ref + "." + at)
        if base.num is not None and base.arr is None and at in ("size", "ndim", "shape"):
            # NumPy scalar (T2): size 1, ndim 0
            return Val.of_num(N(1)) if at == "size" else (Val.of_num(N(0)) if at == "ndim" else Val.of_tup([]))
        if at in ("shape", "size", "ndim"):
            return Val.fresh(at)
        return Val.fresh("attr_" + at)

    def ev_Subscript(self, e, st):
        base = self.ev(e.value, st)
        key = _const_key(e.slice)
        if base.tup is not None and isinstance(key, int) and -len(base.tup) <= key < len(base.tup):
            return base.tup[key]
        a = base.get_arr()
        if a is not None:
            r = npmodel.index(self, a, e.slice, st, e)
            if r is not None:
                return r
            ctx().note("unmodelled-index", self.where(e), ast.unparse(e))
            return Val.fresh("idx")
        if key is not None and base.ref is not None:
            return self.lookup(st, base.ref + "[" + repr(key) + "]")
        if base.ref is not None:
            self.ev_slice_effects(e.slice, st)
            return Val.fresh("dynidx")
        self.ev_slice_effects(e.slice, st)
        return Val.fresh("idx")

    def ev_slice_effects(self, sl, st):
        if isinstance(sl, ast.Slice):
            for x in (sl.lower, sl.upper, sl.step):
                if x is not None:
                    self.ev(x, st)
        elif isinstance(sl, ast.Tuple):
            for x in sl.elts:
                self.ev_slice_effects(x, st)
        else:
            self.ev(sl, st)

    def arr_index(self, a, idx_vals):
        return npmodel.index_vals(self, a, idx_vals)

    def ev_Tuple(self, e, st):
        return Val.of_tup([self.ev(x, st) for x in e.elts])

    def ev_List(self, e, st):
        v = Val.of_tup([self.ev(x, st) for x in e.elts])
        v.py = ("list",)
        v.ref = "$list%d" % next(ctx().counter)
        return v

    def ev_Dict(self, e, st):
        ref = "$dict%d" % next(ctx().counter)
        for k, v in zip(e.keys, e.values):
            kk = _const_key(k) if k is not None else None
            vv = self.ev(v, st)
            if kk is not None:
                st.env[ref + "[" + repr(kk) + "]"] = vv
        return Val(ref=ref, py=("dict",))

    def ev_Set(self, e, st):
        return Val(ref="$set%d" % next(ctx().counter), py=("set",))

    def ev_JoinedStr(self, e, st):
        return Val(s=z3.Int(ctx().fresh("fstr")), py=("fstr",))

    def ev_Lambda(self, e, st):
        return Val(py=("lambda", e, dict((k, v) for k, v in st.env.items() if not is_heap(k))))

    def ev_IfExp(self, e, st):
        t = z3.simplify(self.truth(self.ev(e.test, st)))
        if z3.is_true(t):
            return self.ev(e.body, st)
        if z3.is_false(t):
            return self.ev(e.orelse, st)
        a = self.guarded(st, t, lambda s2: self.ev(e.body, s2))
        b = self.guarded(st, z3.Not(t), lambda s2: self.ev(e.orelse, s2))
        return val_ite(t, a, b)

    def guarded(self, st, cond, fn):
        """Evaluate fn under pc & cond; heap effects are merged back."""
        s2 = st.copy()
        s2.pc = z3.And(st.pc, cond)
        r = fn(s2)
        changed = [k for k in s2.env if s2.env.get(k) is not st.env.get(k)]
        for k in changed:
            if k.startswith("#ver:") or k.startswith("#undef:"):
                st.env[k] = s2.env[k]
            else:
                old = st.env.get(k)
                if old is None and is_heap(k):
                    old = self.lookup(st, k)
                st.env[k] = val_ite(cond, s2.env[k], old)
        return r

    def ev_BoolOp(self, e, st):
        vals = []
        acc = None  # condition under which the next operand is evaluated
        is_and = isinstance(e.op, ast.And)
        for i, x in enumerate(e.values):
            if acc is None:
                v = self.ev(x, st)
            else:
                v = self.guarded(st, acc, lambda s2, x=x: self.ev(x, s2))
            t = self.truth(v)
            vals.append((v, t))
            nxt = t if is_and else z3.Not(t)
            acc = nxt if acc is None else z3.And(acc, nxt)
        ts = [t for _, t in vals]
        b = z3.And(*ts) if is_and else z3.Or(*ts)
        # value semantics: result is the deciding operand; keep facets when all operands are plain bools
        if all(v.boo is not None and v.num is None and v.none is None for v, _ in vals):
            return Val.of_bool(z3.simplify(b))
        r = vals[-1][0]
        for v, t in reversed(vals[:-1]):
            r = val_ite(z3.Not(t) if is_and else t, v, r)
        r2 = Val(none=r.none, num=r.num, boo=z3.simplify(b), arr=r.arr, tup=r.tup, s=r.s, ref=r.ref, py=r.py)
        if r2.num is not None:
            r2.boo = None if not all(v.boo is not None for v, _ in vals) else r2.boo
        if r2.num is None and r2.arr is None:
            r2.boo = z3.simplify(b)
        return r2

    def ev_UnaryOp(self, e, st):
        v = self.ev(e.operand, st)
        if isinstance(e.op, ast.Not):
            return Val.of_bool(z3.Not(self.truth(v)))
        a = v.get_arr() if v.arr is not None else None
        if isinstance(e.op, ast.USub):
            if a is not None:
                return Val.of_arr(arr_map1(n_neg, a))
            return Val.of_num(n_neg(v.get_num()))
        if isinstance(e.op, ast.UAdd):
            return v
        if isinstance(e.op, ast.Invert):
            if a is not None and a.dtype == "bool":
                return Val.of_arr(npmodel.invert_mask(a))
            if v.boo is not None:
                # ~True == -2 (truthy), ~False == -1 (truthy): numpy bools invert logically
                return Val(boo=z3.Not(v.boo), py=("npbool_invert",))
            return Val.fresh("invert")
        return Val.fresh("unary")

    def ev_BinOp(self, e, st):
        return self.binop(e.op, self.ev(e.left, st), self.ev(e.right, st), e)

    def binop(self, op, l, r, node):
        return npmodel.binop(self, op, l, r, node)

    def ev_Compare(self, e, st):
        left = self.ev(e.left, st)
        res = None
        for op, rn in zip(e.ops, e.comparators):
            right = self.ev(rn, st)
            c = npmodel.compare(self, op, left, right, e)
            res = c if res is None else npmodel.logical_and(self, res, c)
            left = right
        return res

    def ev_Call(self, e, st):
        from . import calls

        return calls.call(self, e, st)

    def ev_Starred(self, e, st):
        return self.ev(e.value, st)

    def ev_ListComp(self, e, st):
        ctx().note("unmodelled-expr", self.where(e), "comprehension")
        return Val.fresh("comp")

    ev_GeneratorExp = ev_ListComp
    ev_DictComp = ev_ListComp
    ev_SetComp = ev_ListComp

    def ev_Slice(self, e, st):
        return Val(py=("slice", e))

    # ------------------------------------------------------------------
    # spec evaluation
    # ------------------------------------------------------------------
    def ev_spec(self, node, st, pre=None, polarity=1, lets=None):
        old = self.spec
        c = self.cur_contract
        ll = dict(c.lets) if c is not None else {}
        if old is not None:
            ll = dict(old.lets)
        if lets:
            ll.update(lets)
        self.spec = SpecCtx(pre=pre, polarity=polarity, lets=ll, contract=c)
        try:
            return self.ev(node, st.copy())
        finally:
            self.spec = old

    def eval_clause(self, clause, st, pre=None, polarity=1, lets=None):
        try:
            v = self.ev_spec(clause.ast, st, pre, polarity, lets)
        except Undecided as ex:
            if polarity > 0:
                # the goal cannot be expressed at this program point: the obligation is undecided (never "held")
                self._forced = "clause %s not expressible here: %s" % (clause.name, str(ex)[:300])
            return z3.BoolVal(True)
        return self.truth(v)


def lex_decrease(v0, v1):
    """Lexicographic decrease of integer-valued tuples, each decreasing component bounded below by 0."""
    res = z3.BoolVal(False)
    for a, b in reversed(list(zip(v0, v1))):
        dec = z3.And(n_lt(b, a), n_ge(a, N(0)))
        res = z3.Or(dec, z3.And(n_eq(a, b), res))
    return res


def _to_load(t):
    if isinstance(t, ast.Name):
        return ast.Name(id=t.id, ctx=ast.Load(), lineno=t.lineno, col_offset=t.col_offset)
    if isinstance(t, ast.Attribute):
        return ast.Attribute(value=t.value, attr=t.attr, ctx=ast.Load(), lineno=t.lineno, col_offset=t.col_offset)
    if isinstance(t, ast.Subscript):
        return ast.Subscript(value=t.value, slice=t.slice, ctx=ast.Load(), lineno=t.lineno, col_offset=t.col_offset)
    return t


def _const_key(n):
    if isinstance(n, ast.Constant) and isinstance(n.value, (str, int)) and not isinstance(n.value, bool):
        return n.value
    if isinstance(n, ast.UnaryOp) and isinstance(n.op, ast.USub) and isinstance(n.operand, ast.Constant) and isinstance(n.operand.value, int):
        return -n.operand.value
    return None


def _target_names(t):
    return [n.id for n in ast.walk(t) if isinstance(n, ast.Name)]
