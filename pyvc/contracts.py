"""Sidecar contract registry.  Contracts are plain Python: each clause is an
expression string evaluated symbolically by pyvc (and, for the runtime
monitors, concretely by CPython)."""
import ast

REGISTRY = {}  # qualname -> Contract


class Clause:
    def __init__(self, name, expr, top=False, props=(), when=None):
        self.name = name
        self.expr = expr
        self.top = top
        self.props = tuple(props)
        self.when = when
        self.ast = ast.parse(expr.strip(), mode="eval").body if isinstance(expr, str) else None


PREFIX_PROPS = {"c03_": ("C03",), "c10_": ("C10",), "c13_": ("C13",), "c02_": ("C02",), "c04_": ("C04",), "c19_": ("C19",), "hist_": ("C19",), "c05_": ("C05",), "c01_": ("C01",),
                "c14_": ("C14",), "c15_": ("C15",), "c18_": ("C18",), "c16_": ("C16",), "c09_": ("C09",)}


LOOPG = {"C03", "C13", "C12"}
DEPS = {
    "C01": {"C01"}, "C02": {"C02", "C19", "C04"} | LOOPG, "C03": {"C03"}, "C04": {"C04"} | LOOPG, "C05": {"C05", "C19", "C04", "C02"} | LOOPG, "C10": {"C10", "C03"},
    "C12": {"C12"}, "C13": {"C13", "C03"}, "C17": {"C17"}, "C19": {"C19", "C04"} | LOOPG, "C14": {"C14"} | LOOPG, "C18": {"C18", "C09"} | LOOPG, "C15": {"C15", "C12"},
    "C16": {"C16"}, "C09": {"C09", "C18", "C10"} | LOOPG, "C11": {"C11"}, "C08": {"C08"}, "C20": {"C20"}, "C07": {"C07"},
}


def props_of_name(name):
    for pre, pr in PREFIX_PROPS.items():
        if name.startswith(pre):
            return pr
    return ()


class LoopSpec:
    def __init__(self, invariants=None, variant=None, modifies_extra=None, ghost=None, props=()):
        self.invariants = [Clause(k, v, props=props_of_name(k)) if not isinstance(v, Clause) else v for k, v in (invariants or {}).items()]
        self.variant = [ast.parse(v, mode="eval").body for v in (variant or [])]
        self.variant_src = list(variant or [])
        self.modifies_extra = modifies_extra or []
        self.ghost = ghost or {}
        self.props = tuple(props)


class RaisesSpec:
    def __init__(self, exc, when=None, ensures=None, name=None):
        self.exc = exc
        self.when = ast.parse(when, mode="eval").body if when else None
        self.when_src = when
        self.ensures = [Clause(k, v) for k, v in (ensures or {}).items()]
        self.name = name or exc


def norm_path(p):
    try:
        return ast.unparse(ast.parse(p, mode="eval").body)
    except SyntaxError:
        return p


class Contract:
    def __init__(self, qual, serves=(), mode="real"):
        self.qual = qual
        self.serves = tuple(serves)
        self.mode = mode
        self.requires = []
        self.ensures = []
        self.lets = {}  # name -> expr ast (evaluated in pre-state unless used under post)
        self.types = {}  # path (callee terms) -> spec dict
        self.modifies = None  # None = inferred; list of path exprs
        self.modifies_prefix = []
        self.loops = {}
        self.raises = []  # RaisesSpec: allowed exceptional exits
        self.raises_any = False  # function may raise anything (no exceptional obligations)
        self.result = None  # type spec of result
        self.pure = False
        self.axioms = []
        self.inline_calls = set()  # callee names to inline while verifying this body
        self.opaque_calls = set()
        self.assume = []  # assumptions (listed in evidence as unchecked)
        self.ghost_updates = {}
        self.may_raise_exprs = []
        self.check_frame = True
        self.hooks = {}
        self.opaque_stmts = []
        self.chooses = {}
        self.exc_classes = []
        self.cuts = []
        self.callsites = {}
        self.check_raises = False
        self.exc_ensures = []  # clauses that must hold at every exceptional exit
        self.trusted = False  # contract assumed, body not checked (external / out of reach)
        self.trusted_reason = None

    # DSL ---------------------------------------------------------------
    def let(self, **kw):
        for k, v in kw.items():
            self.lets[k] = ast.parse(v, mode="eval").body
        return self

    def typ(self, path, **spec):
        self.types[norm_path(path)] = spec
        return self

    def ints(self, *paths):
        for p in paths:
            self.types[norm_path(p)] = {"sort": "int", "nonnull": True}
        return self

    def reals(self, *paths, ext=False):
        for p in paths:
            self.types[norm_path(p)] = {"sort": "real", "nonnull": True, "ext": ext}
        return self

    def const(self, path, value):
        self.types[norm_path(path)] = {"const": value, "nonnull": value is not None}
        return self

    def bools(self, *paths):
        for p in paths:
            self.types[norm_path(p)] = {"bool": True, "nonnull": True}
        return self

    def arr(self, path, ndim, shape, dtype="num", ext=False, nonnull=True):
        self.types[norm_path(path)] = {"arrspec": (ndim, shape, dtype, ext), "nonnull": nonnull}
        return self

    def req(self, name, expr, props=()):
        """props: the properties this precondition matters for (empty = all); obligations it generates at call
        sites are only counted for those properties."""
        self.requires.append(Clause(name, expr, props=props))
        return self

    def ens(self, name, expr, top=False, props=()):
        self.ensures.append(Clause(name, expr, top, props))
        return self

    def exc_ens(self, name, expr, top=False, props=()):
        self.exc_ensures.append(Clause(name, expr, top, props))
        return self

    def mod(self, *paths):
        if self.modifies is None:
            self.modifies = []
        self.modifies.extend(paths)
        return self

    def mod_prefix(self, *paths):
        if self.modifies is None:
            self.modifies = []
        self.modifies_prefix.extend(paths)
        return self

    def loop(self, k, invariants=None, variant=None, modifies_extra=None, ghost=None, props=()):
        self.loops[k] = LoopSpec(invariants, variant, modifies_extra, ghost, props)
        return self

    def may_raise(self, exc, when=None, ensures=None, name=None):
        self.raises.append(RaisesSpec(exc, when, ensures, name))
        return self

    def hook(self, stmt_text, updates):
        """Ghost update executed right after the statement whose source text (ast.unparse) equals stmt_text."""
        key = ast.unparse(ast.parse(stmt_text).body[0])
        self.hooks[key] = {k: ast.parse(v, mode="eval").body for k, v in updates.items()}
        return self

    def cut(self, stmt_prefix, var, spec, clauses, props=(), top=(), use=()):
        """Statement contract ("cut"): right after the first statement whose source text starts with stmt_prefix,
        the clauses are proved for the current value of local `var`, which is then replaced by a fresh value
        of type `spec` about which only the clauses are known."""
        self.cuts.append({"key": " ".join(stmt_prefix.split()), "var": var, "spec": spec, "props": tuple(props),
                          "clauses": [Clause(k, v, top=(k in top)) for k, v in clauses.items()], "fired": False,
                          "use": [ast.parse(u, mode="eval").body for u in use]})
        return self

    def callsite(self, suffix, clauses, top=(), props=()):
        """Obligations checked at every call of a modelled callable whose path ends with `suffix`
        (the argument is bound to the name `arg`).  props: tuple for all clauses, or dict clause name -> tuple."""
        self.callsites[suffix] = [Clause(k, v, top=(k in top), props=(props.get(k, ()) if isinstance(props, dict) else props)) for k, v in clauses.items()]
        return self

    def choose(self, stmt_text, var, pred, when="True", props=()):
        """Ghost choice right after a statement: proves `when ==> exists i. pred(i)` and binds ghost `var` to such an i
        (a fresh constant about which only `when ==> pred(var)` is known).  pred is 'lambda i: ...'."""
        key = ast.unparse(ast.parse(stmt_text).body[0])
        self.chooses.setdefault(key, []).append({"var": var, "pred": ast.parse(pred, mode="eval").body, "when": ast.parse(when, mode="eval").body, "props": tuple(props), "src": pred})
        return self

    def opaque_stmt(self, *prefixes):
        """Statements (by source prefix) executed as havoc of their assigned targets: their value is not needed by any
        clause (sound over-approximation; listed as opaque sites)."""
        self.opaque_stmts.extend(" ".join(p.split()) for p in prefixes)
        return self

    def lemma_at(self, stmt_prefix, clauses, props=(), use=()):
        """Intermediate assertion right after a statement: each clause is proved there and then available as a
        hypothesis for the rest of the function (nothing is havocked)."""
        return self.cut(stmt_prefix, "lemma", None, clauses, props=props, use=use)

    def strings(self, **kw):
        for k, v in kw.items():
            self.lets[k] = ast.Constant(value=v)
        return self

    def exc_class_when(self, exc, cond, name, props=()):
        """Every exceptional exit reached while `cond` holds must carry exception class `exc` unchanged
        (e.g. the target's own exception must not be converted into another one)."""
        self.exc_classes.append((exc, Clause(name, cond, top=True, props=props)))
        return self

    def assume_(self, name, expr, why):
        c = Clause(name, expr)
        c.why = why
        self.assume.append(c)
        return self

    def ens_assumed(self, name, expr, why, props=()):
        """Postcondition used at call sites but NOT checked against the body (listed as assumed in the evidence)."""
        self.ens(name, expr, props=props)
        cl = self.ensures[-1]
        cl.assumed = True
        cl.why = why
        return self

    def trust(self, reason):
        self.trusted = True
        self.trusted_reason = reason
        return self


def contract(qual, serves=(), mode="real"):
    def deco(fn):
        c = Contract(qual.split("#")[0], serves, mode)
        c.variant = qual.split("#")[1] if "#" in qual else None
        fn(c)
        REGISTRY[qual] = c
        return fn

    return deco


def load_all():
    import importlib
    import pkgutil

    import contracts as pkg

    REGISTRY.clear()
    for m in pkgutil.iter_modules(pkg.__path__):
        importlib.reload(importlib.import_module("contracts." + m.name)) if ("contracts." + m.name) in __import__("sys").modules else importlib.import_module("contracts." + m.name)
    return REGISTRY
