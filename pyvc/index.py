"""Index of the repository source: parsed on every run from /repo's working tree."""
import ast
import hashlib
import os

REPO = os.environ.get("PYVC_REPO", "/repo")
PKG = "pybads"


class FuncInfo:
    def __init__(self, qual, node, module, cls, path, src):
        self.qual = qual  # pybads.bads.bads.BADS._poll_step_
        self.node = node
        self.module = module
        self.cls = cls  # class name or None
        self.path = path
        self.src = src
        self.name = node.name
        seg = ast.get_source_segment(src, node) or ""
        self.hash = hashlib.sha256(seg.encode()).hexdigest()[:16]
        self.params = [a.arg for a in node.args.posonlyargs + node.args.args]
        self.defaults = {}
        ds = node.args.defaults
        for a, d in zip(self.params[len(self.params) - len(ds):], ds):
            self.defaults[a] = d
        for a, d in zip(node.args.kwonlyargs, node.args.kw_defaults):
            self.params.append(a.arg)
            if d is not None:
                self.defaults[a.arg] = d
        self.loops = [n for n in preorder(node) if isinstance(n, (ast.While, ast.For))]


def preorder(node):
    """Pre-order walk in source order, not descending into nested defs/lambdas/classes."""
    out = []

    def rec(n, top):
        if not top and isinstance(n, (ast.FunctionDef, ast.AsyncFunctionDef, ast.ClassDef, ast.Lambda)):
            return
        out.append(n)
        for c in ast.iter_child_nodes(n):
            rec(c, False)

    rec(node, True)
    return out


class RepoIndex:
    def __init__(self, repo=None, overrides=None):
        """overrides: {relative path: source text} (in-memory mutants)."""
        self.repo = repo or REPO
        self.funcs = {}  # qual -> FuncInfo
        self.by_name = {}  # bare name -> [FuncInfo] (module-level functions)
        self.classes = {}  # class name -> {method: FuncInfo}
        self.class_bases = {}
        self.modules = {}  # module -> (path, src, tree)
        self.parse_errors = []
        self.trees = {}  # relative path -> module AST
        self.class_nodes = {}  # class name -> ClassDef
        overrides = overrides or {}
        root = os.path.join(self.repo, PKG)
        for dp, dn, fn in os.walk(root):
            dn[:] = [d for d in dn if d not in ("testing", "__pycache__")]
            for f in sorted(fn):
                if not f.endswith(".py"):
                    continue
                path = os.path.join(dp, f)
                rel = os.path.relpath(path, self.repo)
                try:
                    src = overrides.get(rel)
                    if src is None:
                        src = open(path, encoding="utf-8").read()
                    import warnings

                    with warnings.catch_warnings():
                        warnings.simplefilter("ignore")
                        tree = ast.parse(src, filename=path)
                except SyntaxError as e:
                    self.parse_errors.append((rel, str(e)))
                    continue
                mod = rel[:-3].replace(os.sep, ".")
                if mod.endswith(".__init__"):
                    mod = mod[: -len(".__init__")]
                self.modules[mod] = (rel, src, tree)
                self.trees[rel] = tree
                for n in tree.body:
                    if isinstance(n, ast.FunctionDef):
                        fi = FuncInfo(mod + "." + n.name, n, mod, None, rel, src)
                        self.funcs[fi.qual] = fi
                        self.by_name.setdefault(n.name, []).append(fi)
                    elif isinstance(n, ast.ClassDef):
                        self.classes.setdefault(n.name, {})
                        self.class_nodes[n.name] = n
                        self.class_bases[n.name] = [b.id if isinstance(b, ast.Name) else getattr(b, "attr", "?") for b in n.bases]
                        for m in n.body:
                            if isinstance(m, ast.FunctionDef):
                                fi = FuncInfo(mod + "." + n.name + "." + m.name, m, mod, n.name, rel, src)
                                self.funcs[fi.qual] = fi
                                self.classes[n.name][m.name] = fi

    def method(self, cls, name):
        seen = set()
        while cls and cls not in seen:
            seen.add(cls)
            m = self.classes.get(cls, {}).get(name)
            if m:
                return m
            bases = [b for b in self.class_bases.get(cls, []) if b in self.classes]
            cls = bases[0] if bases else None
        return None

    def function(self, name):
        l = self.by_name.get(name)
        return l[0] if l else None

    def find(self, qual):
        return self.funcs.get(qual)
