"""Models of the NumPy / builtin primitives used by the verified functions.
Every model here is part of the trusted base (T3); executable twins live in
/verif/replay/axiom_twins.py."""
import ast
import sys
import z3

from .vals import (N, Arr, Val, ctx, val_ite, n_fresh, n_add, n_sub, n_mul, n_div, n_neg, n_lt, n_le, n_eq, n_ne,
                   n_gt, n_ge, n_ite, n_abs, n_round, n_floor, n_ceil, n_uf, n_minimum, n_maximum, n_isnan, n_isinf,
                   n_isfinite, arr_fresh, arr_map1, arr_map2, arr_forall, arr_exists, arr_const, arr_promote, _real,
                   is_lit, FIN, PINF, NINF, NAN)

BUILTINS = {"len", "int", "float", "bool", "min", "max", "abs", "round", "range", "isinstance", "type", "str", "callable",
            "print", "sum", "dict", "list", "tuple", "set", "enumerate", "zip", "sorted", "any", "all", "super", "ord",
            "getattr", "hasattr", "repr", "id"}

I0 = z3.IntVal(0)


def opaque(tag="opaque"):
    return Val.fresh(tag)


def as_arr_or_none(v):
    if v.arr is not None:
        return v.arr
    if v.poly is not None:
        return v.get_arr()
    return None


def scalar_of(v):
    return v.get_num()


def is_arrayish(v):
    return as_arr_or_none(v) is not None


def has_value(v):
    return v.num is not None or v.boo is not None or v.arr is not None or v.poly is not None


# ----------------------------------------------------------------------------
# lifting
# ----------------------------------------------------------------------------
def lift2(f, l, r, dtype="num"):
    """Apply scalar op f(N,N) elementwise with broadcasting; scalars stay scalars."""
    la, ra = as_arr_or_none(l), as_arr_or_none(r)
    if la is None and ra is None:
        x = f(l.get_num(), r.get_num())
        return Val.of_bool(x) if dtype == "bool" else Val.of_num(x)
    if la is None:
        n = l.get_num()
        la = Arr(0, (), lambda: n)
    if ra is None:
        n = r.get_num()
        ra = Arr(0, (), lambda: n)
    if la.dtype == "bool":
        la = arr_map1(lambda b: N(z3.If(b, z3.IntVal(1), z3.IntVal(0))), la, "num")
    if ra.dtype == "bool":
        ra = arr_map1(lambda b: N(z3.If(b, z3.IntVal(1), z3.IntVal(0))), ra, "num")
    return Val.of_arr(arr_map2(f, la, ra, dtype))


def _tag_lin(op, l, r, res):
    """1-D real array (op) scalar: remember the affine form  res[i] == c * base[i] + d  (used by the model of np.sum)."""
    try:
        la, ra = as_arr_or_none(l), as_arr_or_none(r)
        if res.arr is None or res.arr.ndim != 1 or res.arr.dtype != "num" or (la is None) == (ra is None):
            return res
        a = la if la is not None else ra
        sv = r if la is not None else l
        if a.ndim != 1 or a.dtype != "num" or sv.num is None or sv.arr is not None or sv.num.t is not None:
            return res
        s_ = _real(sv.num.r)
        base, c, d = getattr(a, "lin", None) or (a, z3.RealVal(1), z3.RealVal(0))
        if op == "+":
            lin = (base, c, d + s_)
        elif op == "-":
            lin = (base, c, d - s_) if la is not None else (base, -c, s_ - d)
        elif op == "*":
            lin = (base, c * s_, d * s_)
        elif op == "/" and la is not None:
            lin = (base, c / s_, d / s_)
        else:
            return res
        res.arr.lin = lin
    except Exception:
        pass
    return res


def sum_real(a):
    """T3 model of np.sum over a 1-D real array (mathematical reals, no rounding): Sum is an uninterpreted function of the
    vector (as a value) and its length; an affine image c*base+d sums to c*Sum(base)+n*d; positivity/upper-bound facts."""
    c = ctx()
    base, k, d = getattr(a, "lin", None) or (a, None, None)
    m = materialize(base)
    if m.pt is None:
        return None
    n = base.shape[0]
    Sum = c.uf("Sum", z3.ArraySort(z3.IntSort(), z3.RealSort()), z3.IntSort(), z3.RealSort())
    S = Sum(m.pt, n)
    key = ("Sum", str(m.pt), str(n))
    if key not in c.fact_keys:
        c.fact_keys.add(key)
        i = z3.Int(c.fresh("q_sum"))
        rng = z3.And(i >= 0, i < n)
        el = _real(m.elem(i).r)
        allpos = z3.ForAll([i], z3.Implies(rng, el > 0))
        allnn = z3.ForAll([i], z3.Implies(rng, el >= 0))
        c.add_fact(z3.Implies(z3.And(n >= 1, allpos), S > 0))
        c.add_fact(z3.Implies(allnn, z3.And(S >= 0, z3.ForAll([i], z3.Implies(rng, el <= S)))))
        c.add_fact(z3.Implies(n == 0, S == 0))
    if k is None:
        return N(S)
    return N(k * S + z3.ToReal(n) * d)


def lift1(f, v, dtype="num"):
    a = as_arr_or_none(v)
    if a is None:
        x = f(v.get_num())
        return Val.of_bool(x) if dtype == "bool" else Val.of_num(x)
    if a.dtype == "bool" and dtype != "boolin":
        a = arr_map1(lambda b: N(z3.If(b, z3.IntVal(1), z3.IntVal(0))), a, "num")
    return Val.of_arr(arr_map1(f, a, dtype))


def n_pow(a, b):
    """x ** y.  Integer literal exponents 0..3 are expanded; otherwise uninterpreted pw with facts."""
    eb = z3.simplify(b.r)
    if b.t is None and (z3.is_int_value(eb) or (z3.is_rational_value(eb) and eb.denominator_as_long() == 1)):
        k = eb.as_long() if z3.is_int_value(eb) else eb.numerator_as_long()
        if k == 0:
            return N(z3.IntVal(1))
        if 1 <= k <= 3 and a.t is None:
            r = a
            for _ in range(k - 1):
                r = n_mul(r, a)
            return r
    c = ctx()
    pw = c.uf("pw", z3.RealSort(), z3.RealSort(), z3.RealSort())
    ra, rb = _real(a.r), _real(b.r)
    t = pw(ra, rb)
    key = ("pw", str(ra), str(rb))
    if key in c.fact_keys:
        return N(t)
    c.fact_keys.add(key)
    c.add_fact(z3.Implies(ra > 0, t > 0))
    c.add_fact(z3.Implies(rb == 0, t == 1))
    c.add_fact(z3.Implies(rb == 1, t == ra))
    c.add_fact(z3.Implies(z3.And(ra >= 0, rb == 2), t == ra * ra))
    c.add_fact(z3.Implies(z3.And(ra > 1, rb < 0), t < 1))
    c.add_fact(z3.Implies(z3.And(ra > 1, rb > 0), t > 1))
    # ground instances of monotonicity / functionality against every earlier pw term
    terms = getattr(c, "pw_terms", None)
    if terms is None:
        terms = c.pw_terms = []
    for (b2, e2, t2) in terms:
        same = ra == b2
        c.add_fact(z3.Implies(z3.And(same, ra > 1, rb < e2), t < t2))
        c.add_fact(z3.Implies(z3.And(same, ra > 1, rb > e2), t > t2))
        c.add_fact(z3.Implies(z3.And(same, rb == e2), t == t2))
        # pw(b, e+1) = b * pw(b, e): doubling / halving of the mesh
        c.add_fact(z3.Implies(z3.And(same, rb == e2 + 1), t == ra * t2))
        c.add_fact(z3.Implies(z3.And(same, e2 == rb + 1), t2 == ra * t))
    terms.append((ra, rb, t))
    return N(t)


def pw_axioms():
    """(unused by default) quantified monotonicity axioms of pw."""
    return []
    c = ctx()
    pw = c.uf("pw", z3.RealSort(), z3.RealSort(), z3.RealSort())
    b, e1, e2 = z3.Reals("pwb pwe1 pwe2")
    return [
        z3.ForAll([b, e1, e2], z3.Implies(z3.And(b > 1, e1 < e2), pw(b, e1) < pw(b, e2)), patterns=[z3.MultiPattern(pw(b, e1), pw(b, e2))]),
        z3.ForAll([b, e1, e2], z3.Implies(z3.And(b > 1, e1 == e2), pw(b, e1) == pw(b, e2)), patterns=[z3.MultiPattern(pw(b, e1), pw(b, e2))]),
    ]


def binop(eng, op, l, r, node):
    tl = l.tup is not None and l.arr is None
    tr = r.tup is not None and r.arr is None
    if isinstance(op, ast.Add):
        if (l.s is not None or (l.py and l.py[0] in ("str", "fstr"))) and l.num is None:
            return Val(s=z3.Int(ctx().fresh("strcat")), py=("fstr",))
        if tl and tr:
            return Val.of_tup(l.tup + r.tup)
        return _tag_lin("+", l, r, lift2(n_add, l, r))
    if isinstance(op, ast.Sub):
        return _tag_lin("-", l, r, lift2(n_sub, l, r))
    if isinstance(op, ast.Mult):
        if tl or tr:
            return opaque("seqmul")
        return _tag_lin("*", l, r, lift2(n_mul, l, r))
    if isinstance(op, ast.Div):
        return _tag_lin("/", l, r, lift2(n_div, l, r))
    if isinstance(op, ast.Pow):
        return lift2(n_pow, l, r)
    if isinstance(op, ast.FloorDiv):
        return lift2(lambda a, b: n_floor(n_div(a, b)), l, r)
    if isinstance(op, ast.Mod):
        if l.s is not None and l.num is None:
            return Val(s=z3.Int(ctx().fresh("strfmt")), py=("fstr",))

        def md(a, b):
            if a.is_int() and b.is_int():
                return N(a.r % b.r)
            q = n_floor(n_div(a, b))
            return n_sub(a, n_mul(q, b))

        return lift2(md, l, r)
    if isinstance(op, (ast.BitAnd, ast.BitOr)):
        la, ra = as_arr_or_none(l), as_arr_or_none(r)
        f = z3.And if isinstance(op, ast.BitAnd) else z3.Or
        if la is None and ra is None:
            if l.boo is not None and r.boo is not None:
                return Val.of_bool(f(l.boo, r.boo))
            if (l.boo is not None or l.poly) and (r.boo is not None or r.poly) and l.num is None and r.num is None:
                return Val.of_bool(f(l.get_bool(), r.get_bool()))
            ctx().note("unmodelled-expr", eng.where(node), "integer bit operation")
            return opaque("bitop")
        if la is not None and ra is not None and la.dtype == "bool" and ra.dtype == "bool":
            return Val.of_arr(arr_map2(lambda a, b: f(a, b), la, ra, "bool"))
        if la is not None and la.dtype == "bool" and r.boo is not None:
            return Val.of_arr(arr_map1(lambda a: f(a, r.boo), la, "bool"))
        if ra is not None and ra.dtype == "bool" and l.boo is not None:
            return Val.of_arr(arr_map1(lambda a: f(l.boo, a), ra, "bool"))
        return opaque("bitop")
    if isinstance(op, ast.MatMult):
        ctx().note("opaque-expr", eng.where(node), "matmul")
        return opaque("matmul")
    ctx().note("unmodelled-expr", eng.where(node), type(op).__name__)
    return opaque("binop")


def logical_and(eng, a, b):
    aa, ba = as_arr_or_none(a), as_arr_or_none(b)
    if aa is None and ba is None:
        return Val.of_bool(z3.And(a.get_bool(), b.get_bool()))
    return binop(eng, ast.BitAnd(), a, b, None)


_CMP = {ast.Lt: n_lt, ast.LtE: n_le, ast.Gt: n_gt, ast.GtE: n_ge, ast.Eq: n_eq, ast.NotEq: n_ne}


def compare(eng, op, l, r, node):
    if isinstance(op, (ast.Is, ast.IsNot)):
        if r.is_static_none() or l.is_static_none():
            x = l if r.is_static_none() else r
            t = x.none_term()
            return Val.of_bool(t if isinstance(op, ast.Is) else z3.Not(t))
        if l.boo is not None and r.boo is not None and l.num is None and r.num is None:
            t = l.boo == r.boo
            return Val.of_bool(t if isinstance(op, ast.Is) else z3.Not(t))
        if l.py is not None and r.py is not None and l.py[0] in ("builtin", "class") and r.py[0] in ("builtin", "class"):
            return Val.of_bool((l.py == r.py) == isinstance(op, ast.Is))
        return Val.of_bool(z3.Bool(ctx().fresh("is")))
    if isinstance(op, (ast.In, ast.NotIn)):
        t = None
        if r.tup is not None and all(x.s is not None for x in r.tup) and (l.s is not None or l.poly):
            ls = l.get_str()
            t = z3.Or(*[ls == x.s for x in r.tup]) if r.tup else z3.BoolVal(False)
        elif r.ref is not None and l.py is not None and l.py[0] == "str":
            # key in dict: typestate bit of the dict key
            t = eng.lookup_state_has_key(r.ref, l.py[1]) if hasattr(eng, "lookup_state_has_key") else z3.Bool(ctx().fresh("in"))
        else:
            t = z3.Bool(ctx().fresh("in"))
        return Val.of_bool(t if isinstance(op, ast.In) else z3.Not(t))
    f = _CMP[type(op)]
    # strings
    ls = l.s is not None and l.num is None
    rs = r.s is not None and r.num is None
    if (ls or rs) and isinstance(op, (ast.Eq, ast.NotEq)):
        if l.is_static_none() or r.is_static_none():
            t = (l if r.is_static_none() else r).none_term()
        else:
            t = l.get_str() == r.get_str()
            if l.none is not None:
                t = z3.And(z3.Not(l.none), t)
            if r.none is not None:
                t = z3.And(z3.Not(r.none), t)
        return Val.of_bool(t if isinstance(op, ast.Eq) else z3.Not(t))
    if (l.is_static_none() or r.is_static_none()) and isinstance(op, (ast.Eq, ast.NotEq)):
        t = (l if r.is_static_none() else r).none_term()
        return Val.of_bool(t if isinstance(op, ast.Eq) else z3.Not(t))
    if l.tup is not None and r.tup is not None and l.arr is None and r.arr is None and isinstance(op, (ast.Eq, ast.NotEq)):
        if len(l.tup) != len(r.tup):
            return Val.of_bool(isinstance(op, ast.NotEq))
        t = z3.And(*[compare(eng, ast.Eq(), a, b, node).get_bool() for a, b in zip(l.tup, r.tup)])
        return Val.of_bool(t if isinstance(op, ast.Eq) else z3.Not(t))
    # bool == bool
    if l.boo is not None and r.boo is not None and l.num is None and r.num is None and isinstance(op, (ast.Eq, ast.NotEq)):
        t = l.boo == r.boo
        return Val.of_bool(t if isinstance(op, ast.Eq) else z3.Not(t))
    la, ra = as_arr_or_none(l), as_arr_or_none(r)
    if la is not None and la.dtype == "bool" and ra is None and r.boo is not None:
        return Val.of_arr(arr_map1(lambda a: a == r.boo if isinstance(op, ast.Eq) else a != r.boo, la, "bool"))
    res = lift2(f, l, r, "bool")
    # None-able scalars: comparison with a None operand is not modelled (would raise TypeError)
    return res


# ----------------------------------------------------------------------------
# attributes
# ----------------------------------------------------------------------------
def module_attr(eng, mod, at, node):
    if mod in ("np", "numpy"):
        if at == "inf" or at == "Inf":
            return Val.of_num(N(float("inf")))
        if at == "nan" or at == "NaN":
            return Val.of_num(N(float("nan")))
        if at == "pi":
            return Val.of_num(N(z3.RealVal("3.141592653589793")))
        if at in ("random", "linalg"):
            return Val(py=("module", "np." + at))
        if at in ("ndarray", "float64", "uint64"):
            return Val(py=("class", "np." + at))
        return Val(py=("npfunc", at))
    if mod == "np.random" or mod == "rnd":
        return Val(py=("npfunc", "random." + at))
    if mod == "np.linalg":
        if at == "LinAlgError":
            return Val(py=("excclass", "LinAlgError"))
        return Val(py=("npfunc", "linalg." + at))
    if mod == "math":
        if at == "inf":
            return Val.of_num(N(float("inf")))
        return Val(py=("npfunc", "math." + at))
    if mod == "sys":
        if at == "float_info":
            return Val(py=("module", "sys.float_info"))
        return Val(py=("module", "sys." + at))
    if mod == "sys.float_info":
        if at == "min":
            return Val.of_num(N(z3.RealVal(sys.float_info.min.hex() and "22250738585072014") / z3.RealVal("1" + "0" * 324)))
    if mod == "copy":
        return Val(py=("npfunc", "copy." + at))
    if mod == "logging":
        if at in ("DEBUG", "INFO", "WARN", "WARNING", "ERROR"):
            return Val.of_num(N({"DEBUG": 10, "INFO": 20, "WARN": 30, "WARNING": 30, "ERROR": 40}[at]))
        return Val(py=("logfunc", at))
    return Val(py=("extfunc", mod + "." + at))


def arr_attr(eng, a, at):
    if at == "shape":
        return Val.of_tup([Val.of_num(N(d)) for d in a.shape])
    if at == "size":
        return Val.of_num(N(a.size()))
    if at == "ndim":
        return Val.of_num(N(a.ndim))
    if at == "T":
        return Val.of_arr(transpose(a))
    if at == "flat":
        return Val.of_arr(flatten(a))
    return opaque(at)


def transpose(a):
    if a.ndim != 2:
        return a
    r = Arr(2, (a.shape[1], a.shape[0]), lambda i, j: a.elem(j, i), a.dtype)
    rp = getattr(a, "rowperm", None)
    if rp is not None:
        r.colperm = rp  # columns of the transpose are the permuted rows
    return r


def flatten(a):
    if a.ndim == 1:
        return a
    if a.ndim == 0:
        return Arr(1, (1,), lambda i: a.elem(), a.dtype)
    r, c = a.shape
    if is_lit(r, 1):
        rr = Arr(1, (c,), lambda i: a.elem(I0, i), a.dtype, intdtype=a.intdtype)
        if a.dtype == "num":
            rr.pt = a.row(I0)
        return rr
    if is_lit(c, 1):
        return Arr(1, (r,), lambda i: a.elem(i, I0), a.dtype, intdtype=a.intdtype)
    return Arr(1, (r * c,), lambda i: a.elem(i / c, i % c), a.dtype, intdtype=a.intdtype)


# ----------------------------------------------------------------------------
# indexing
# ----------------------------------------------------------------------------
def _norm_index(i, dim):
    """Python negative indexing for literal negatives."""
    s = z3.simplify(i)
    if z3.is_int_value(s) and s.as_long() < 0:
        return z3.simplify(dim + s)
    return i


def count_true(m):
    """Number of true entries of a boolean array: a constant attached to named (uninterpreted) arrays,
    a fresh constant otherwise."""
    c = ctx()
    if m.cnt is not None:
        n = m.cnt
    else:
        n = m.cnt = z3.Int(c.fresh("cnt"))
    c.add_fact(z3.And(n >= 0, n <= m.size()), key=("cnt", str(n)))
    return n


def mask_select(a, m, axis=0):
    """a[m] for a 1-D boolean mask over axis 0 (rows): order-preserving subsequence."""
    c = ctx()
    # the enumeration of the true positions is a function of the mask alone: every selection through the same mask object
    # shares it (X[m], Y[m], S[m] are row-aligned)
    cache = getattr(m, "_selcache", None)
    n = count_true(m)
    rows = a.shape[0]
    if cache is None:
        nm = c.fresh("sel")
        sel = c.uf(nm, z3.IntSort(), z3.IntSort())
        inv = c.uf(nm + "!inv", z3.IntSort(), z3.IntSort())
        done = []
        try:
            m._selcache = (nm, sel, inv, done)
        except Exception:
            pass
    else:
        nm, sel, inv, done = cache
    c.add_fact(z3.And(n >= 0, n <= rows))
    dfn = [nm, nm + "!inv"]

    def axioms():
        # emitted lazily: only when an element of the selection is actually used
        if done:
            return
        done.append(1)
        saved, c.binders = c.binders, []
        k, k2, i = z3.Int(nm + "!k"), z3.Int(nm + "!k2"), z3.Int(nm + "!i")
        # strictly increasing (order preserving)
        c.add_fact(z3.ForAll([k, k2], z3.Implies(z3.And(0 <= k, k < k2, k2 < n), sel(k) < sel(k2)), patterns=[z3.MultiPattern(sel(k), sel(k2))]), defines=dfn)
        # completeness through an inverse
        c.binders.append([i])
        try:
            mi = m.elem(i)
        finally:
            c.binders.pop()
        c.add_fact(z3.ForAll([i], z3.Implies(z3.And(0 <= i, i < rows, mi), z3.And(0 <= inv(i), inv(i) < n, sel(inv(i)) == i)), patterns=[inv(i)]), defines=dfn)
        c.add_fact(z3.ForAll([k], z3.And(inv(sel(k)) == k, z3.Implies(z3.And(0 <= k, k < n), z3.And(0 <= sel(k), sel(k) < rows))), patterns=[sel(k)]), defines=dfn)
        c.binders = saved

    def fact_at(kk):
        axioms()
        c.add_fact(z3.Implies(z3.And(0 <= kk, kk < n), z3.And(0 <= sel(kk), sel(kk) < rows, m.elem(sel(kk)))), key=("sel", nm, str(kk)), defines=dfn)

    if a.ndim == 1:
        def el(kk):
            fact_at(kk)
            return a.elem(sel(kk))

        r = Arr(1, (n,), el, a.dtype)
    else:
        def el(kk, j):
            fact_at(kk)
            return a.elem(sel(kk), j)

        r = Arr(2, (n, a.shape[1]), el, a.dtype)
        if a.dtype == "num":
            def rowf(kk):
                fact_at(kk)
                return a.row(sel(kk))

            r.rowf = rowf
    r.sel = (sel, n, m, inv)
    return r


def index_vals(eng, a, idx):
    """a[i0, i1, ...] with scalar integer index values."""
    ii = [eng.as_int(v) for v in idx]
    ii = [_norm_index(i, d) for i, d in zip(ii, a.shape)]
    if len(ii) == a.ndim:
        e = a.elem(*ii)
        return Val.of_bool(e) if a.dtype == "bool" else Val.of_num(e)
    if len(ii) == 1 and a.ndim == 2:
        i = ii[0]
        r = Arr(1, (a.shape[1],), lambda j: a.elem(i, j), a.dtype)
        if a.dtype == "num":
            r.pt = a.row(i)
        return Val.of_arr(r)
    return None


def _slice_bounds(eng, sl, dim, st):
    lo = eng.as_int(eng.ev(sl.lower, st)) if sl.lower is not None else I0
    hi = eng.as_int(eng.ev(sl.upper, st)) if sl.upper is not None else dim
    if sl.step is not None:
        return None
    lo = _norm_index(lo, dim)
    hi = _norm_index(hi, dim)
    # clamp hi to dim  (numpy semantics), lo >= 0 assumed
    hi_c = z3.If(hi > dim, dim, hi)
    n = z3.If(hi_c - lo > 0, hi_c - lo, I0)
    return lo, z3.simplify(n)


def index(eng, a, sl, st, node):
    # full slices / tuple indices
    parts = list(sl.elts) if isinstance(sl, ast.Tuple) else [sl]
    if len(parts) > a.ndim:
        return None
    # all scalar integer / slice parts
    kinds = []
    for p, d in zip(parts, a.shape):
        if isinstance(p, ast.Slice):
            b = _slice_bounds(eng, p, d, st)
            if b is None:
                return None
            kinds.append(("slice",) + b)
        else:
            v = eng.ev(p, st)
            va = as_arr_or_none(v)
            if va is not None and va.ndim == 1 and va.dtype == "num" and is_lit(va.shape[0], 1):
                # a 1-element integer index array is identified with the scalar index (T2)
                kinds.append(("int", _norm_index(_toint(va.elem(I0)), d)))
            elif va is not None and (va.ndim >= 1):
                kinds.append(("arr", va))
            elif v.py is not None and v.py[0] == "slice":
                return None
            else:
                raw = eng.as_int(v)
                cc = getattr(eng, "cur_contract", None)
                if cc is not None and getattr(cc, "index_checks", False) and eng.inline_depth == 0 and eng.spec is None:
                    # opt-in safety semantics: an out-of-range scalar index raises IndexError
                    raise_if(eng, st, z3.Not(z3.And(raw >= -d, raw < d)), "IndexError", node)
                kinds.append(("int", _norm_index(raw, d)))
    while len(kinds) < a.ndim:
        kinds.append(("slice", I0, a.shape[len(kinds)]))
    # boolean mask (same rank) a[m] -> 1-D compress
    if len(parts) == 1 and kinds[0][0] == "arr" and kinds[0][1].dtype == "bool":
        m = kinds[0][1]
        if m.ndim == 1:
            return Val.of_arr(mask_select(a, m))
        if m.ndim == a.ndim:
            # full-rank mask: flat compress; elements are *some* masked elements
            c = ctx()
            nm = c.fresh("fsel")
            n = z3.Int(nm + "!n")
            c.add_fact(n >= 0)
            si = [c.uf(nm + "!%d" % d, z3.IntSort(), z3.IntSort()) for d in range(a.ndim)]

            def el(k):
                idx = [f(k) for f in si]
                c.add_fact(z3.Implies(z3.And(0 <= k, k < n), z3.And(a.in_range(*idx), m.elem(*idx))), key=("fsel", nm, str(k)))
                return a.elem(*idx)

            r = Arr(1, (n,), el, a.dtype)
            r.fsel = (m, n, si)
            r.src = a
            r.aligned = (m, lambda *i: a.elem(*i))
            return Val.of_arr(r)
        return None
    if a.ndim == 2 and len(kinds) == 2 and kinds[0][0] == "arr" and kinds[0][1].dtype == "bool" and kinds[0][1].ndim == 1 and kinds[1][0] == "slice" \
            and isinstance(parts[1], ast.Slice) and parts[1].lower is None and parts[1].upper is None and parts[1].step is None:
        # a[mask, :] -> row compress
        return Val.of_arr(mask_select(a, kinds[0][1]))
    if a.ndim == 2 and kinds[0][0] == "slice" and kinds[1][0] == "arr" and kinds[1][1].dtype == "bool" and kinds[1][1].ndim == 1:
        # a[:, mask] -> column compress
        t = mask_select(transpose(a), kinds[1][1])
        return Val.of_arr(transpose(t))
    # integer array (fancy) on first axis
    if kinds[0][0] == "arr" and kinds[0][1].dtype == "num" and all(k[0] == "slice" for k in kinds[1:]):
        ia = kinds[0][1]
        if ia.ndim != 1:
            return None
        if a.ndim == 1:
            return Val.of_arr(Arr(1, ia.shape, lambda k: a.elem(_toint(ia.elem(k))), a.dtype))
        lo1, n1 = kinds[1][1], kinds[1][2]
        r = Arr(2, (ia.shape[0], n1), lambda k, j: a.elem(_toint(ia.elem(k)), lo1 + j), a.dtype)
        if a.dtype == "num" and is_lit(lo1, 0) and n1.eq(a.shape[1]):
            r.rowf = lambda k: a.row(_toint(ia.elem(k)))
        return Val.of_arr(r)
    if any(k[0] == "arr" for k in kinds):
        return None
    # ints and slices
    out_dims = [(k[1], k[2]) for k in kinds if k[0] == "slice"]

    def el(*idx):
        it = iter(idx)
        full = []
        for k in kinds:
            if k[0] == "int":
                full.append(k[1])
            else:
                full.append(z3.simplify(k[1] + next(it)))
        return a.elem(*full)

    if not out_dims:
        e = el()
        return Val.of_bool(e) if a.dtype == "bool" else Val.of_num(e)
    r = Arr(len(out_dims), tuple(n for _, n in out_dims), el, a.dtype, intdtype=a.intdtype)
    if a.dtype == "num" and a.ndim == 2:
        full_cols = kinds[1][0] == "slice" and is_lit(kinds[1][1], 0) and z3.simplify(kinds[1][2]).eq(z3.simplify(a.shape[1]))
        if full_cols and kinds[0][0] == "slice":
            lo0 = kinds[0][1]
            r.rowf = lambda k: a.row(z3.simplify(lo0 + k))
        elif full_cols and kinds[0][0] == "int":
            r.pt = a.row(kinds[0][1])
    return Val.of_arr(r)


def _toint(n):
    return n.r if z3.is_int(n.r) else z3.ToInt(n.r)


def _trunc_if_int(a, n):
    """Store into an integer-dtype array truncates toward zero (C08/C11)."""
    if a.intdtype is None or not isinstance(n, N):
        return n
    r = _real(n.r)
    tr = z3.If(r >= 0, z3.ToReal(z3.ToInt(r)), -z3.ToReal(z3.ToInt(-r)))
    return N(z3.If(a.intdtype, tr, r), n.t)


def same_mask(m1, m2):
    """Two boolean arrays are the same mask: the same object, or built elementwise from the same terms (syntactic equality of
    the element term at symbolic indices and of the shapes) - e.g. the expression `np.isinf(b)` written twice."""
    if m1 is m2:
        return True
    try:
        if m1.ndim != m2.ndim or m1.dtype != "bool" or m2.dtype != "bool":
            return False
        if not all(z3.simplify(x).eq(z3.simplify(y)) for x, y in zip(m1.shape, m2.shape)):
            return False
        c = ctx()
        idx = [z3.Int("smk!%d" % d) for d in range(m1.ndim)]
        import os
        # the comparison only needs the element terms: axiom instances produced while building them are discarded again
        nf, keys0 = len(c.facts), set(c.fact_keys)
        saved, c.binders = c.binders, [idx]
        try:
            e1, e2 = m1.elem(*idx), m2.elem(*idx)
        finally:
            c.binders = saved
            for f_ in c.facts[nf:]:
                c.defines.pop(f_.get_id(), None)
            del c.facts[nf:]
            c.fact_keys.intersection_update(keys0)
        if os.environ.get("PYVC_DEBUG") and not z3.simplify(e1).eq(z3.simplify(e2)):
            print("same_mask differs:", str(z3.simplify(e1))[:300], "||", str(z3.simplify(e2))[:300])
        return z3.simplify(e1).eq(z3.simplify(e2))
    except Exception as ex:
        import os
        if os.environ.get("PYVC_DEBUG"):
            print("same_mask error", repr(ex))
        return False


def store(eng, a, sl, v, st, node):
    """Functional update for a[sl] = v.  Returns new Arr or None."""
    parts = list(sl.elts) if isinstance(sl, ast.Tuple) else [sl]
    va = as_arr_or_none(v)
    kinds = []
    for p, d in zip(parts, a.shape):
        if isinstance(p, ast.Slice):
            b = _slice_bounds(eng, p, d, st)
            if b is None:
                return None
            kinds.append(("slice",) + b)
        else:
            pv = eng.ev(p, st)
            pa = as_arr_or_none(pv)
            if pa is not None and pa.ndim == 1 and pa.dtype == "num" and is_lit(pa.shape[0], 1):
                kinds.append(("int", _norm_index(_toint(pa.elem(I0)), d)))
            elif pa is not None and pa.ndim >= 1:
                kinds.append(("arr", pa))
            else:
                kinds.append(("int", _norm_index(eng.as_int(pv), d)))
    while len(kinds) < a.ndim:
        kinds.append(("slice", I0, a.shape[len(kinds)]))

    def scalar_rhs():
        if a.dtype == "bool":
            return v.get_bool()
        return v.get_num()

    # full-rank boolean mask: a[m] = rhs
    if len(parts) == 1 and kinds[0][0] == "arr" and kinds[0][1].dtype == "bool" and kinds[0][1].ndim == a.ndim:
        m = kinds[0][1]
        if va is None:
            rhs = scalar_rhs()
            return Arr(a.ndim, a.shape, lambda *i: _ite(m.elem(*i), _trunc_if_int(a, rhs), a.elem(*i), a.dtype), a.dtype, intdtype=a.intdtype)
        # aligned masked update: rhs = f(x[m], y[m], ...) built from the same mask -> elementwise
        al = getattr(va, "aligned", None)
        if al is not None and same_mask(al[0], m):
            g = al[1]
            return Arr(a.ndim, a.shape, lambda *i: _ite(m.elem(*i), _trunc_if_int(a, g(*i)), a.elem(*i), a.dtype), a.dtype, intdtype=a.intdtype)
        fs = getattr(va, "fsel", None)
        if fs is not None and same_mask(fs[0], m):
            return Arr(a.ndim, a.shape, lambda *i: _ite(m.elem(*i), _trunc_if_int(a, getattr(va, "src").elem(*i)), a.elem(*i), a.dtype), a.dtype, intdtype=a.intdtype)
        # unknown alignment: masked elements become unknown
        u = arr_fresh(ctx().fresh("mstore"), a.ndim, a.shape, a.dtype)
        ctx().note("opaque-expr", eng.where(node), "masked store with unaligned rhs")
        return Arr(a.ndim, a.shape, lambda *i: _ite(m.elem(*i), u.elem(*i), a.elem(*i), a.dtype), a.dtype, intdtype=a.intdtype)
    # a[:, colmask] = rhs
    if a.ndim == 2 and kinds[0][0] == "slice" and kinds[1][0] == "arr" and kinds[1][1].dtype == "bool" and kinds[1][1].ndim == 1 and va is None:
        m = kinds[1][1]
        rhs = scalar_rhs()
        lo, n = kinds[0][1], kinds[0][2]
        return Arr(2, a.shape, lambda i, j: _ite(z3.And(m.elem(j), i >= lo, i < lo + n), rhs, a.elem(i, j), a.dtype), a.dtype, intdtype=a.intdtype)
    if any(k[0] == "arr" for k in kinds):
        return None

    def inside(*i):
        cs = []
        for k, x in zip(kinds, i):
            if k[0] == "int":
                cs.append(x == k[1])
            else:
                cs.append(z3.And(x >= k[1], x < k[1] + k[2]))
        return z3.And(*cs)

    if va is None:
        rhs = scalar_rhs()
        r = Arr(a.ndim, a.shape, lambda *i: _ite(inside(*i), _trunc_if_int(a, rhs), a.elem(*i), a.dtype), a.dtype, intdtype=a.intdtype)
        if a.dtype == "bool" and a.ndim == 1 and kinds[0][0] == "int":
            # T3: count under a single-element update
            k0 = kinds[0][1]
            old = a.elem(k0)
            r.cnt = count_true(a) + z3.If(z3.And(k0 >= 0, k0 < a.shape[0]), z3.If(rhs, 1, 0) - z3.If(old, 1, 0), 0)
        return r
    # array rhs: map target index -> rhs index (broadcast, trailing alignment)
    sl_dims = [d for d, k in enumerate(kinds) if k[0] == "slice"]

    def rhs_at(*i):
        off = [z3.simplify(i[d] - kinds[d][1]) for d in sl_dims]
        off = off[len(off) - va.ndim:] if va.ndim <= len(off) else off
        idx = [I0 if is_lit(sd, 1) else o for sd, o in zip(va.shape, off)]
        if len(idx) < va.ndim:
            idx = [I0] * (va.ndim - len(idx)) + idx
        return va.elem(*idx)

    r = Arr(a.ndim, a.shape, lambda *i: _ite(inside(*i), _trunc_if_int(a, rhs_at(*i)), a.elem(*i), a.dtype), a.dtype, intdtype=a.intdtype)
    if a.ndim == 2 and a.dtype == "num" and va.ndim == 1 and kinds[0][0] == "int" and kinds[1][0] == "slice" and is_lit(kinds[1][1], 0) \
            and z3.simplify(kinds[1][2]).eq(z3.simplify(a.shape[1])) and a.intdtype is None:
        # whole-row assignment a[k] = v: row identity of the new array
        k0 = kinds[0][1]
        r.rowf = lambda i: z3.If(i == k0, va.row(None), a.row(i))
    return r


def _ite(c, x, y, dtype):
    if dtype == "bool":
        return z3.If(c, x, y)
    if not isinstance(x, N):
        x = N(x)
    return n_ite(c, x, y)


# ----------------------------------------------------------------------------
# numpy functions
# ----------------------------------------------------------------------------
def _axis(kw, args, pos):
    ax = kw.get("axis")
    if ax is None and len(args) > pos:
        ax = args[pos]
    if ax is None:
        return None
    if ax.is_static_none():
        return None
    s = z3.simplify(ax.get_num().r)
    if z3.is_int_value(s):
        return s.as_long()
    return "?"


def np_minimum(eng, st, args, kw, node):
    return lift2(n_minimum, args[0], args[1])


def np_maximum(eng, st, args, kw, node):
    return lift2(n_maximum, args[0], args[1])


def reduce_bool(a, axis, is_all):
    if axis is None or a.ndim == 1 and axis in (0, -1):
        return Val.of_bool(arr_forall(a) if is_all else arr_exists(a))
    if a.ndim == 2 and axis in (1, -1):
        cols = a.shape[1]

        def el(i):
            row = Arr(1, (cols,), lambda j: a.elem(i, j), "bool")
            return arr_forall(row) if is_all else arr_exists(row)

        return Val.of_arr(Arr(1, (a.shape[0],), el, "bool"))
    if a.ndim == 2 and axis == 0:
        rows = a.shape[0]

        def el(j):
            col = Arr(1, (rows,), lambda i: a.elem(i, j), "bool")
            return arr_forall(col) if is_all else arr_exists(col)

        return Val.of_arr(Arr(1, (a.shape[1],), el, "bool"))
    return None


def _boolarr(v):
    a = as_arr_or_none(v)
    if a is None:
        return None
    if a.dtype == "bool":
        return a
    return arr_map1(lambda x: z3.Or(_real(x.r) != 0, n_isnan(x)) if x.t is not None else x.r != 0, a, "bool")


def np_all(eng, st, args, kw, node):
    a = _boolarr(args[0])
    if a is None:
        return Val.of_bool(args[0].get_bool())
    r = reduce_bool(a, _axis(kw, args, 1), True)
    return r if r is not None else opaque("all")


def np_any(eng, st, args, kw, node):
    a = _boolarr(args[0])
    if a is None:
        return Val.of_bool(args[0].get_bool())
    r = reduce_bool(a, _axis(kw, args, 1), False)
    return r if r is not None else opaque("any")


def np_isfinite(eng, st, args, kw, node):
    return lift1(n_isfinite, args[0], "bool")


def np_isnan(eng, st, args, kw, node):
    return lift1(n_isnan, args[0], "bool")


def np_isinf(eng, st, args, kw, node):
    return lift1(n_isinf, args[0], "bool")


def invert_mask(a):
    """~a for a boolean array; the same array object always yields the same complement object (so that X[~m], Y[~m]
    select through one mask and stay row-aligned)."""
    r = getattr(a, "_not", None)
    if r is None:
        r = arr_map1(lambda x: z3.Not(x), a, "bool")
        try:
            a._not = r
        except Exception:
            pass
    return r


def np_invert(eng, st, args, kw, node):
    a = as_arr_or_none(args[0])
    if a is not None and a.dtype == "bool":
        return Val.of_arr(invert_mask(a))
    return Val.of_bool(z3.Not(args[0].get_bool()))


def np_logical(f):
    def g(eng, st, args, kw, node):
        a, b = _boolarr(args[0]), _boolarr(args[1])
        if a is None and b is None:
            return Val.of_bool(f(args[0].get_bool(), args[1].get_bool()))
        if a is None:
            x = args[0].get_bool()
            return Val.of_arr(arr_map1(lambda y: f(x, y), b, "bool"))
        if b is None:
            y = args[1].get_bool()
            return Val.of_arr(arr_map1(lambda x: f(x, y), a, "bool"))
        broadcast_check(eng, st, a, b, node)
        return Val.of_arr(arr_map2(lambda x, y: f(x, y), a, b, "bool"))

    return g


def broadcast_check(eng, st, a, b, node):
    """Opt-in safety semantics (contract.shape_checks): combining two 1-D arrays elementwise whose lengths differ (and neither
    is 1) raises ValueError inside NumPy ('operands could not be broadcast together') - an internal error, never a declared one."""
    cc = getattr(eng, "cur_contract", None)
    if cc is None or not getattr(cc, "shape_checks", False) or eng.inline_depth != 0 or eng.spec is not None or eng.func is None or eng.func.qual != cc.qual:
        return
    if a.ndim != 1 or b.ndim != 1:
        return
    from .symexec import Exit
    la, lb = a.shape[0], b.shape[0]
    cond = z3.simplify(z3.And(la != lb, la != 1, lb != 1))
    if z3.is_false(cond):
        return
    xs = st.copy()
    xs.pc = z3.And(st.pc, cond)
    ex = Exit("raise", xs, exc="ValueError", where=eng.where(node))
    ex.tag = "internal[broadcast]"
    eng.push_exit(ex)
    st.pc = z3.And(st.pc, z3.Not(cond))


def np_abs(eng, st, args, kw, node):
    return lift1(n_abs, args[0])


def np_round(eng, st, args, kw, node):
    return lift1(n_round, args[0])


def np_floor(eng, st, args, kw, node):
    return lift1(n_floor, args[0])


def np_ceil(eng, st, args, kw, node):
    return lift1(n_ceil, args[0])


def uf1(name, facts=None):
    def g(eng, st, args, kw, node):
        def f(x):
            r = n_uf(name, x)
            if facts:
                facts(x, r)
            if x.t is not None:
                # IEEE special values: log(+inf)=+inf, log(-inf)=nan, exp(+inf)=+inf, exp(-inf)=0, sqrt(+inf)=+inf, f(nan)=nan
                t = x.t
                if name == "exp":
                    return N(z3.If(t == NINF, z3.RealVal(0), r.r), z3.If(t == PINF, z3.IntVal(PINF), z3.If(t == NAN, z3.IntVal(NAN), z3.IntVal(FIN))))
                return N(r.r, z3.If(t == PINF, z3.IntVal(PINF), z3.If(t == FIN, z3.IntVal(FIN), z3.IntVal(NAN))))
            return r

        return lift1(f, args[0])

    return g


def _sqrt_facts(x, r):
    c = ctx()
    xr = _real(x.r)
    k = ("sqrt", str(xr))
    c.add_fact(z3.Implies(xr >= 0, z3.And(r.r >= 0, r.r * r.r == xr)), key=k)
    c.add_fact(z3.Implies(xr == 0, r.r == 0), key=k + ("z",))


def _mono_pairs(kind, xr, rr, increasing_domain):
    """Ground monotonicity / functionality instances against every earlier application of the same function."""
    c = ctx()
    if c.binders:
        return
    lst = getattr(c, "mono_" + kind, None)
    if lst is None:
        lst = []
        setattr(c, "mono_" + kind, lst)
    # instances against the first applications (the bounds / constants set up at the start of a function) and against the most
    # recent ones (the terms of the clause being evaluated): keeps the number of ground instances linear instead of quadratic
    for (x2, r2) in (lst[:10] + lst[10:][-10:]):
        dom = increasing_domain(xr, x2)
        c.add_fact(z3.Implies(z3.And(dom, xr < x2), rr < r2))
        c.add_fact(z3.Implies(z3.And(dom, x2 < xr), r2 < rr))
        c.add_fact(z3.Implies(xr == x2, rr == r2))
    if len(lst) < 400:
        lst.append((xr, rr))


def _exp_facts(x, r):
    c = ctx()
    xr = _real(x.r)
    key = ("exp", str(xr))
    if key in c.fact_keys:
        return
    c.fact_keys.add(key)
    c.add_fact(r.r > 0)
    lg = c.uf("log", z3.RealSort(), z3.RealSort())
    c.add_fact(lg(r.r) == xr)
    _mono_pairs("exp", xr, r.r, lambda a, b: z3.BoolVal(True))


def _log_facts(x, r):
    c = ctx()
    ex = c.uf("exp", z3.RealSort(), z3.RealSort())
    xr = _real(x.r)
    key = ("logexp", str(xr))
    if key in c.fact_keys:
        return
    c.fact_keys.add(key)
    c.add_fact(z3.Implies(xr > 0, ex(r.r) == xr))
    c.log_used = True
    _mono_pairs("log", xr, r.r, lambda a, b: z3.And(a > 0, b > 0))


def explog_axioms():
    return []  # monotonicity is instantiated on ground term pairs (see _mono_pairs); inverse facts per term
    c = ctx()
    lg = c.uf("log", z3.RealSort(), z3.RealSort())
    ex = c.uf("exp", z3.RealSort(), z3.RealSort())
    a, b = z3.Reals("mla mlb")
    return [
        z3.ForAll([a, b], z3.Implies(z3.And(0 < a, a < b), lg(a) < lg(b)), patterns=[z3.MultiPattern(lg(a), lg(b))]),
        z3.ForAll([a, b], z3.Implies(a < b, ex(a) < ex(b)), patterns=[z3.MultiPattern(ex(a), ex(b))]),
        z3.ForAll([a], ex(a) > 0, patterns=[ex(a)]),
        z3.ForAll([a], lg(ex(a)) == a, patterns=[ex(a)]),
        z3.ForAll([a], z3.Implies(a > 0, ex(lg(a)) == a), patterns=[lg(a)]),
    ]


def np_copy(eng, st, args, kw, node):
    v = args[0]
    a = as_arr_or_none(v)
    if a is not None:
        return Val(arr=a, none=v.none)
    if v.num is not None or v.boo is not None:
        return v
    r = Val.fresh("copy")
    return r


def np_atleast_2d(eng, st, args, kw, node):
    v = args[0]
    a = as_arr_or_none(v)
    if a is None:
        if v.num is not None:
            n = v.num
            return Val.of_arr(Arr(2, (1, 1), lambda i, j: n))
        if v.tup is not None and all(x.num is not None for x in v.tup):
            xs = v.tup
            return Val.of_arr(Arr(2, (1, len(xs)), lambda i, j: _pick(xs, j)))
        return opaque("atleast_2d")
    if a.ndim == 2:
        return Val(arr=a, none=v.none)
    return Val.of_arr(arr_promote(a, 2))


def _pick(xs, j):
    r = xs[-1].num
    for k in range(len(xs) - 2, -1, -1):
        r = n_ite(j == k, xs[k].num, r)
    return r


def np_atleast_1d(eng, st, args, kw, node):
    v = args[0]
    a = as_arr_or_none(v)
    if a is None:
        if v.num is not None:
            n = v.num
            return Val.of_arr(Arr(1, (1,), lambda i: n))
        return opaque("atleast_1d")
    if a.ndim >= 1:
        return v
    return Val.of_arr(Arr(1, (1,), lambda i: a.elem(), a.dtype))


def _shape_arg(eng, v):
    if v.tup is not None:
        return tuple(eng.as_int(x) for x in v.tup)
    if v.num is not None:
        return (eng.as_int(v),)
    return None


def np_full(eng, st, args, kw, node):
    shp = _shape_arg(eng, args[0])
    if shp is None or len(shp) > 2:
        return opaque("full")
    fv = args[1] if len(args) > 1 else kw.get("fill_value")
    if fv.boo is not None and fv.num is None:
        b = fv.boo
        r = Arr(len(shp), shp, lambda *i: b, "bool")
        r.cnt = z3.If(b, r.size(), z3.IntVal(0))
        return Val.of_arr(r)
    if fv.is_static_none():
        return Val.of_arr(Arr(len(shp), shp, lambda *i: N(float("nan")), "num"))
    n = fv.get_num()
    return Val.of_arr(Arr(len(shp), shp, lambda *i: n))


def np_zeros(eng, st, args, kw, node):
    shp = _shape_arg(eng, args[0])
    if shp is None or len(shp) > 2:
        return opaque("zeros")
    return Val.of_arr(Arr(len(shp), shp, lambda *i: N(0)))


def np_ones(eng, st, args, kw, node):
    shp = _shape_arg(eng, args[0])
    if shp is None or len(shp) > 2:
        return opaque("ones")
    return Val.of_arr(Arr(len(shp), shp, lambda *i: N(1)))


def np_empty(eng, st, args, kw, node):
    shp = _shape_arg(eng, args[0])
    if shp is None or len(shp) > 2:
        return opaque("empty")
    return Val.of_arr(arr_fresh(ctx().fresh("empty"), len(shp), shp))


def np_size(eng, st, args, kw, node):
    a = as_arr_or_none(args[0])
    if a is not None:
        return Val.of_num(N(a.size()))
    if args[0].num is not None or args[0].boo is not None:
        return Val.of_num(N(1))
    if args[0].tup is not None:
        return Val.of_num(N(len(args[0].tup)))
    return Val.of_num(n_fresh(ctx().fresh("size"), "int"))


def raise_here(eng, st, exc, node):
    """The call raises `exc` on every path reaching it (e.g. a call that NumPy rejects with TypeError)."""
    from .symexec import Exit
    xs = st.copy()
    ex = Exit("raise", xs, exc=exc, where=eng.where(node))
    ex.tag = "implicit[%s]" % exc
    eng.push_exit(ex)
    st.pc = z3.BoolVal(False)


def raise_if(eng, st, cond, exc, node):
    """The statement raises `exc` exactly when cond holds; execution continues under not cond."""
    from .symexec import Exit
    cond = z3.simplify(cond)
    if z3.is_false(cond):
        return
    xs = st.copy()
    xs.pc = z3.And(st.pc, cond)
    ex = Exit("raise", xs, exc=exc, where=eng.where(node))
    ex.tag = "implicit[%s]" % exc
    eng.push_exit(ex)
    st.pc = z3.And(st.pc, z3.Not(cond))


def np_tril(eng, st, args, kw, node):
    a = as_arr_or_none(args[0])
    k = eng.as_int(args[1]) if len(args) > 1 else (eng.as_int(kw["k"]) if "k" in kw else I0)
    if a is None or a.ndim != 2:
        return opaque("tril")
    return Val.of_arr(Arr(2, a.shape, lambda i, j: _ite(j <= i + k, a.elem(i, j), N(0), "num"), "num"))


def np_eye(eng, st, args, kw, node):
    n = eng.as_int(args[0])
    return Val.of_arr(Arr(2, (n, n), lambda i, j: N(z3.If(i == j, z3.IntVal(1), z3.IntVal(0))), "num"))


def np_transpose(eng, st, args, kw, node):
    a = as_arr_or_none(args[0])
    if a is None:
        return opaque("transpose")
    return Val.of_arr(transpose(a))


def np_vstack(eng, st, args, kw, node):
    if len(args) != 1:
        # np.vstack takes exactly one positional argument (a sequence): TypeError in NumPy
        raise_here(eng, st, "TypeError", node)
        return opaque("vstack")
    t = args[0]
    if t.tup is None or len(t.tup) != 2:
        return opaque("vstack")
    def as_row(v):
        x = as_arr_or_none(v)
        if x is None and (v.num is not None or (v.poly is not None and v.arr is None and v.tup is None)):
            n = v.get_num()
            return Arr(2, (1, 1), lambda i, j: n, "num")
        return None if x is None else arr_promote(x, 2)

    a, b = as_row(t.tup[0]), as_row(t.tup[1])
    if a is None or b is None:
        return opaque("vstack")
    ra = a.shape[0]
    r = Arr(2, (z3.simplify(ra + b.shape[0]), a.shape[1]), lambda i, j: _ite(i < ra, a.elem(i, j), b.elem(i - ra, j), a.dtype), a.dtype)
    if a.dtype == "num":
        r.rowf = lambda i: z3.If(i < ra, a.row(i), b.row(i - ra))
    return Val.of_arr(r)


def np_append(eng, st, args, kw, node):
    a, b = as_arr_or_none(args[0]), as_arr_or_none(args[1])
    ax = _axis(kw, args, 2)
    if a is None or b is None or a.ndim != b.ndim or a.dtype != b.dtype:
        return opaque("append")
    if a.ndim == 1 and ax in (None, 0):
        ra = a.shape[0]
        r = Arr(1, (z3.simplify(ra + b.shape[0]),), lambda i: _ite(i < ra, a.elem(i), b.elem(i - ra), a.dtype), a.dtype)
        if a.dtype == "bool":
            r.cnt = count_true(a) + count_true(b)  # T3: count is additive under concatenation
        return Val.of_arr(r)
    if a.ndim == 2 and ax == 0:
        ra = a.shape[0]
        r = Arr(2, (z3.simplify(ra + b.shape[0]), a.shape[1]), lambda i, j: _ite(i < ra, a.elem(i, j), b.elem(i - ra, j), a.dtype), a.dtype)
        if a.dtype == "num":
            r.rowf = lambda i: z3.If(i < ra, a.row(i), b.row(i - ra))
        return Val.of_arr(r)
    return opaque("append")


def np_concatenate(eng, st, args, kw, node):
    t = args[0]
    ax = _axis(kw, args, 1)
    if t.tup is None:
        return opaque("concatenate")
    arrs = [as_arr_or_none(x) for x in t.tup]
    if any(a is None for a in arrs) or ax not in (None, 0):
        return opaque("concatenate")
    nd = arrs[0].ndim
    if any(a.ndim != nd for a in arrs) or nd not in (1, 2):
        return opaque("concatenate")
    acc = arrs[0]
    for b in arrs[1:]:
        a = acc
        ra = a.shape[0]
        if nd == 1:
            acc = Arr(1, (z3.simplify(ra + b.shape[0]),), (lambda a, b, ra: lambda i: _ite(i < ra, a.elem(i), b.elem(i - ra), a.dtype))(a, b, ra), a.dtype)
        else:
            acc = Arr(2, (z3.simplify(ra + b.shape[0]), a.shape[1]), (lambda a, b, ra: lambda i, j: _ite(i < ra, a.elem(i, j), b.elem(i - ra, j), a.dtype))(a, b, ra), a.dtype)
    return Val.of_arr(acc)


def np_pad(eng, st, args, kw, node):
    """np.pad(a, ((0, n), (0, 0)), constant_values=v): append n constant rows (only this shape of call is modelled)."""
    a = as_arr_or_none(args[0])
    pw = args[1] if len(args) > 1 else kw.get("pad_width")
    if a is None or a.ndim != 2 or pw is None or pw.tup is None or len(pw.tup) != 2 or any(t.tup is None or len(t.tup) != 2 for t in pw.tup):
        return opaque("pad")
    (b0, a0), (b1, a1) = [[eng.as_int(x) for x in t.tup] for t in pw.tup]
    if not (is_lit(b0, 0) and is_lit(b1, 0) and is_lit(a1, 0)):
        return opaque("pad")
    cv = kw.get("constant_values")
    fill = cv.get_num() if cv is not None else N(0)
    ra = a.shape[0]
    return Val.of_arr(Arr(2, (z3.simplify(ra + a0), a.shape[1]), lambda i, j: _ite(i < ra, a.elem(i, j), fill, "num"), "num"))


def stat_uf(name, v):
    """np.mean / np.std as uninterpreted functions of (vector contents, length)."""
    a = as_arr_or_none(v)
    if a is None:
        return opaque(name)
    f = flatten(a) if a.ndim != 1 else a
    PT = z3.ArraySort(z3.IntSort(), z3.RealSort())
    u = ctx().uf("stat_" + name, PT, z3.IntSort(), z3.RealSort())
    return Val.of_num(N(u(f.row(None), f.shape[0])))


def np_mean(eng, st, args, kw, node):
    if _axis(kw, args, 1) is not None:
        return opaque("mean")
    return stat_uf("mean", args[0])


def np_std(eng, st, args, kw, node):
    if _axis(kw, args, 1) is not None:
        return opaque("std")
    return stat_uf("std", args[0])


def np_finfo(eng, st, args, kw, node):
    """np.finfo(np.float64): only .max is used: an (unspecified) positive constant FMAX."""
    ctx().types.setdefault("$finfo.max", {"sort": "real", "nonnull": True})
    fm = z3.Real("$finfo.max")
    ctx().add_fact(fm > 1, key=("finfo",))
    return Val(ref="$finfo")


def np_argmin(eng, st, args, kw, node, is_min=True):
    a = as_arr_or_none(args[0])
    if a is None:
        return opaque("argmin")
    f = flatten(a) if a.ndim != 1 else a
    c = ctx()
    k = z3.Int(c.fresh("argmin" if is_min else "argmax"))
    n = f.shape[0]
    cc = getattr(eng, "cur_contract", None)
    if cc is not None and getattr(cc, "empty_reduce_checks", False) and eng.inline_depth == 0 and eng.spec is None and eng.func is not None and eng.func.qual == cc.qual:
        # opt-in safety semantics: arg-reduction of an empty array raises ValueError inside NumPy (an internal error, never a declared one)
        from .symexec import Exit
        cond = z3.simplify(n <= 0)
        if not z3.is_false(cond):
            xs = st.copy()
            xs.pc = z3.And(st.pc, cond)
            ex = Exit("raise", xs, exc="ValueError", where=eng.where(node))
            ex.tag = "internal[empty-argmin]"
            eng.push_exit(ex)
            st.pc = z3.And(st.pc, z3.Not(cond))
    c.add_fact(z3.Implies(n > 0, z3.And(k >= 0, k < n)))
    i = z3.Int(c.fresh("q"))
    c.binders.append([i])
    try:
        ei = f.elem(i)
    finally:
        c.binders.pop()
    ek = f.elem(k)
    body = n_le(ek, ei) if is_min else n_ge(ek, ei)
    c.add_fact(z3.ForAll([i], z3.Implies(z3.And(0 <= i, i < n), body)))
    # first occurrence
    strict = n_lt(ek, ei) if is_min else n_gt(ek, ei)
    c.add_fact(z3.ForAll([i], z3.Implies(z3.And(0 <= i, i < k), strict)))
    v = Val.of_num(N(k))
    v.py = ("npint",)
    return v


def np_argmax(eng, st, args, kw, node):
    return np_argmin(eng, st, args, kw, node, is_min=False)


def np_min(eng, st, args, kw, node, is_min=True):
    a = as_arr_or_none(args[0])
    if a is None:
        if args[0].tup is not None and all(x.num is not None or x.poly for x in args[0].tup) and args[0].tup:
            xs = [x.get_num() for x in args[0].tup]
            r = xs[0]
            for x in xs[1:]:
                r = n_minimum(r, x) if is_min else n_maximum(r, x)
            return Val.of_num(r)
        return opaque("min")
    ax = _axis(kw, args, 1)
    if ax == 0 and a.ndim == 2 and a.dtype == "num":
        # column-wise min / max: a witness row per column (T3); NaN-free semantics (a NaN entry makes the value unknown)
        c = ctx()
        nm = c.fresh("colmin" if is_min else "colmax")
        w = c.uf(nm, z3.IntSort(), z3.IntSort())
        rows_ = a.shape[0]

        done_ = []

        def elc(j):
            if not done_:
                done_.append(1)
                i, jj = z3.Int(nm + "!i"), z3.Int(nm + "!j")
                saved, c.binders = c.binders, [[i, jj]]
                try:
                    cmp_ = n_le(a.elem(w(jj), jj), a.elem(i, jj)) if is_min else n_le(a.elem(i, jj), a.elem(w(jj), jj))
                finally:
                    c.binders = saved
                saved, c.binders = c.binders, []
                c.add_fact(z3.ForAll([jj], z3.Implies(rows_ >= 1, z3.And(w(jj) >= 0, w(jj) < rows_)), patterns=[w(jj)]), defines=[nm])
                c.add_fact(z3.ForAll([i, jj], z3.Implies(z3.And(i >= 0, i < rows_), cmp_)), defines=[nm])
                c.binders = saved
            return a.elem(w(j), j)

        return Val.of_arr(Arr(1, (a.shape[1],), elc, "num"))
    if ax is not None and a.ndim == 2:
        ctx().note("opaque-expr", eng.where(node), "axis reduction")
        return opaque("minax")
    k = np_argmin(eng, st, [Val.of_arr(a)], {}, node, is_min).get_num().r
    f = flatten(a) if a.ndim != 1 else a
    return Val.of_num(f.elem(k))


def np_max(eng, st, args, kw, node):
    return np_min(eng, st, args, kw, node, is_min=False)


def np_sum(eng, st, args, kw, node):
    a = as_arr_or_none(args[0])
    if a is None:
        return opaque("sum")
    if a.dtype == "bool" and _axis(kw, args, 1) is None:
        # count of true entries: 0 <= s <= size, s == 0 iff none, s == size iff all
        c = ctx()
        s = z3.Int(c.fresh("count"))
        c.add_fact(z3.And(s >= 0, s <= a.size()))
        c.add_fact((s == 0) == z3.Not(arr_exists(a)))
        c.add_fact((s == a.size()) == arr_forall(a))
        return Val.of_num(N(s))
    if a.ndim == 1 and a.dtype == "num" and _axis(kw, args, 1) in (None, 0):
        r = sum_real(a)
        if r is not None:
            return Val.of_num(r)
    ctx().note("opaque-expr", eng.where(node), "sum")
    return opaque("sum")


def materialize(a):
    """Give a derived real array an identity (row terms are UF applications instead of lambdas)."""
    if a.dtype != "num" or a.ndim not in (1, 2):
        return a
    if (a.ndim == 2 and a.rowf is not None) or (a.ndim == 1 and a.pt is not None):
        return a
    c = ctx()
    nm = c.fresh("mat")
    m = arr_fresh(nm, a.ndim, a.shape)
    vs = [z3.Int(nm + "!%d" % d) for d in range(a.ndim)]
    saved, c.binders = c.binders, []
    c.binders.append(vs)
    try:
        e = a.elem(*vs)
    finally:
        c.binders.pop()
    if e.t is not None:
        c.binders = saved
        return a
    c.add_fact(z3.ForAll(vs, m.elem(*vs).r == _real(e.r), patterns=[m.elem(*vs).r]), defines=[nm])
    c.binders = saved
    m.intdtype = a.intdtype
    return m


def np_unique(eng, st, args, kw, node):
    """np.unique(a, axis=0, return_index=True): first-occurrence indices of the distinct rows.
    (The lexicographic order of the result is not modelled: callers re-sort the indices.)"""
    a = as_arr_or_none(args[0])
    ax = _axis(kw, args, 99)
    ri = kw.get("return_index")
    if a is None or a.ndim != 2 or ax != 0:
        return opaque("unique")
    a = materialize(a)
    c = ctx()
    nm = c.fresh("uniq")
    n = z3.Int(nm + "!n")
    idx = c.uf(nm, z3.IntSort(), z3.IntSort())
    rep = c.uf(nm + "!rep", z3.IntSort(), z3.IntSort())
    rows, cols = a.shape
    c.add_fact(z3.And(n >= 0, n <= rows, z3.Implies(rows > 0, n > 0)))
    done = []

    def axioms():
        if done:
            return
        done.append(1)
        saved, c.binders = c.binders, []
        k, k2, i = z3.Int(nm + "!k"), z3.Int(nm + "!k2"), z3.Int(nm + "!i")
        dfn = [nm, nm + "!rep"]
        c.add_fact(z3.ForAll([k], z3.Implies(z3.And(0 <= k, k < n), z3.And(0 <= idx(k), idx(k) < rows, rep(idx(k)) == k)), patterns=[idx(k)]), defines=dfn)
        # pairwise distinct rows (as points)
        c.add_fact(z3.ForAll([k, k2], z3.Implies(z3.And(0 <= k, k < n, 0 <= k2, k2 < n, k != k2), a.row(idx(k)) != a.row(idx(k2))),
                             patterns=[z3.MultiPattern(idx(k), idx(k2))]), defines=dfn)
        # every input row is represented by an equal row, which is its first occurrence
        c.add_fact(z3.ForAll([i], z3.Implies(z3.And(0 <= i, i < rows), z3.And(0 <= rep(i), rep(i) < n, idx(rep(i)) <= i, a.row(idx(rep(i))) == a.row(i))),
                             patterns=[rep(i)]), defines=dfn)
        c.binders = saved

    def ix(kk):
        axioms()
        return idx(kk)

    uniq = Arr(2, (n, cols), lambda kk, jj: a.elem(ix(kk), jj), a.dtype)
    if a.dtype == "num":
        uniq.rowf = lambda kk: a.row(ix(kk))
    iarr = Arr(1, (n,), lambda kk: N(ix(kk)), "num")
    iarr.uniq = (nm, idx, n, a, rep)
    if ri is not None:
        return Val.of_tup([Val.of_arr(uniq), Val.of_arr(iarr)])
    return Val.of_arr(uniq)


def np_sort(eng, st, args, kw, node):
    a = as_arr_or_none(args[0])
    if a is None or a.ndim != 1:
        return opaque("sort")
    c = ctx()
    nm = c.fresh("sort")
    perm = c.uf(nm, z3.IntSort(), z3.IntSort())
    inv = c.uf(nm + "!inv", z3.IntSort(), z3.IntSort())
    n = a.shape[0]
    done = []

    def axioms():
        if done:
            return
        done.append(1)
        saved, c.binders = c.binders, []
        k, k2 = z3.Int(nm + "!k"), z3.Int(nm + "!k2")
        dfn = [nm, nm + "!inv"]
        c.add_fact(z3.ForAll([k], z3.And(inv(perm(k)) == k, z3.Implies(z3.And(0 <= k, k < n), z3.And(0 <= perm(k), perm(k) < n))), patterns=[perm(k)]), defines=dfn)
        c.add_fact(z3.ForAll([k], z3.And(perm(inv(k)) == k, z3.Implies(z3.And(0 <= k, k < n), z3.And(0 <= inv(k), inv(k) < n))), patterns=[inv(k)]), defines=dfn)
        c.binders.append([k, k2])
        try:
            asc = n_le(a.elem(perm(k)), a.elem(perm(k2)))
        finally:
            c.binders.pop()
        c.add_fact(z3.ForAll([k, k2], z3.Implies(z3.And(0 <= k, k < k2, k2 < n), asc), patterns=[z3.MultiPattern(perm(k), perm(k2))]), defines=dfn)
        # consequence of sortedness + bijection, stated directly (E-matching has no term inv(k) to start from):
        # the first element of the sorted order is a least element
        c.binders.append([k])
        try:
            least = n_le(a.elem(perm(z3.IntVal(0))), a.elem(k))
        finally:
            c.binders.pop()
        c.add_fact(z3.ForAll([k], z3.Implies(z3.And(0 <= k, k < n), least)), defines=dfn)
        c.binders = saved

    def pm(kk):
        axioms()
        return perm(kk)

    r = Arr(1, (n,), lambda kk: a.elem(pm(kk)), a.dtype)
    r.perm = (pm, inv, a)
    return Val.of_arr(r)


def np_argsort(eng, st, args, kw, node):
    a = as_arr_or_none(args[0])
    if a is None:
        return opaque("argsort")
    if a.ndim == 2:
        a = flatten(a)
    s = np_sort(eng, st, [Val.of_arr(a)], {}, node).arr
    perm = s.perm[0]
    r = Arr(1, a.shape, lambda kk: N(perm(kk)), "num")
    r.perm = s.perm
    return Val.of_arr(r)


def np_array(eng, st, args, kw, node):
    v = args[0]
    a = as_arr_or_none(v)
    if a is not None:
        return Val(arr=a)
    if v.num is not None or (v.poly is not None and getattr(v, "lazy", None) is not None):
        n = v.get_num()
        return Val.of_arr(Arr(0, (), lambda: n))
    if v.boo is not None:
        b = v.boo
        return Val.of_arr(Arr(0, (), lambda: b, "bool"))
    if v.tup is not None and v.tup and all(x.num is not None for x in v.tup):
        xs = v.tup
        return Val.of_arr(Arr(1, (len(xs),), lambda j: _pick(xs, j)))
    return opaque("array")


def np_reshape(eng, st, args, kw, node):
    a = as_arr_or_none(args[0])
    shp = _shape_arg(eng, args[1]) if len(args) > 1 else None
    if a is None or shp is None:
        return opaque("reshape")
    if len(shp) == a.ndim and all(z3.simplify(x).eq(z3.simplify(y)) for x, y in zip(shp, a.shape)):
        return Val.of_arr(a)
    f = flatten(a) if a.ndim != 1 else a
    if len(shp) == 1:
        return Val.of_arr(Arr(1, (f.shape[0],), f._elem, a.dtype, intdtype=a.intdtype))
    if len(shp) == 2:
        r, cdim = shp
        if is_lit(r, 1):
            rr = Arr(2, (1, f.shape[0]), lambda i, j: f.elem(j), a.dtype, intdtype=a.intdtype)
            if a.dtype == "num":
                rr.rowf = lambda k: f.row(None)
            return Val.of_arr(rr)
        return Val.of_arr(Arr(2, (r, cdim), lambda i, j: f.elem(i * cdim + j), a.dtype, intdtype=a.intdtype))
    return opaque("reshape")


def np_isscalar(eng, st, args, kw, node):
    v = args[0]
    if v.arr is not None or v.tup is not None:
        return Val.of_bool(False)
    if v.is_static_none():
        return Val.of_bool(False)
    if v.num is not None or v.boo is not None or (v.s is not None and v.py):
        t = z3.BoolVal(True)
        if v.none is not None:
            t = z3.Not(v.none)
        return Val.of_bool(t)
    return Val.of_bool(z3.Bool(ctx().fresh("isscalar")))


def np_isreal(eng, st, args, kw, node):
    v = args[0]
    a = as_arr_or_none(v)
    if a is not None:
        return Val.of_arr(Arr(a.ndim, a.shape, lambda *i: z3.BoolVal(True), "bool"))
    if v.num is not None:
        return Val.of_bool(True)
    return Val.of_bool(z3.Bool(ctx().fresh("isreal")))


def np_mod(eng, st, args, kw, node):
    return binop(eng, ast.Mod(), args[0], args[1], node)


def np_spacing(eng, st, args, kw, node):
    s = z3.simplify(args[0].get_num().r)
    if (z3.is_rational_value(s) or z3.is_int_value(s)) and str(s) in ("1", "1.0"):
        return Val.of_num(N(z3.RealVal(1) / z3.RealVal(2 ** 52)))
    r = n_fresh(ctx().fresh("spacing"))
    ctx().add_fact(r.r > 0)
    return Val.of_num(r)


def np_delete(eng, st, args, kw, node):
    a = as_arr_or_none(args[0])
    ax = _axis(kw, args, 2)
    if a is None or a.ndim != 2 or ax != 0:
        return opaque("delete")
    k = eng.as_int(args[1])
    r = Arr(2, (z3.simplify(a.shape[0] - 1), a.shape[1]), lambda i, j: a.elem(z3.If(i < k, i, i + 1), j), a.dtype)
    if a.dtype == "num":
        r.rowf = lambda i: a.row(z3.If(i < k, i, i + 1))
    return Val.of_arr(r)


def np_squeeze(eng, st, args, kw, node):
    a = as_arr_or_none(args[0])
    if a is None:
        return opaque("squeeze")
    if a.ndim == 2:
        if is_lit(a.shape[0], 1):
            return Val.of_arr(Arr(1, (a.shape[1],), lambda j: a.elem(I0, j), a.dtype))
        if is_lit(a.shape[1], 1):
            return Val.of_arr(Arr(1, (a.shape[0],), lambda i: a.elem(i, I0), a.dtype))
        return opaque("squeeze")
    return Val.of_arr(a)


def np_argwhere(eng, st, args, kw, node):
    a = _boolarr(args[0])
    if a is None:
        return opaque("argwhere")
    c = ctx()
    nm = c.fresh("argw")
    n = z3.Int(nm + "!n")
    c.add_fact(z3.And(n >= 0, n <= a.size()))
    c.add_fact((n == 0) == z3.Not(arr_exists(a)))
    fs = [c.uf(nm + "!%d" % d, z3.IntSort(), z3.IntSort()) for d in range(a.ndim)]

    def el(k, d):
        idx = [f(k) for f in fs]
        c.add_fact(z3.Implies(z3.And(0 <= k, k < n), z3.And(a.in_range(*idx), a.elem(*idx))), key=("argw", nm, str(k)))
        r = fs[-1](k)
        for dd in range(a.ndim - 2, -1, -1):
            r = z3.If(d == dd, fs[dd](k), r)
        return N(r)

    k, k2 = z3.Int(nm + "!k"), z3.Int(nm + "!k2")
    # row-major order: first coordinate non-decreasing; strictly increasing for 1-D
    if a.ndim == 1:
        c.add_fact(z3.ForAll([k, k2], z3.Implies(z3.And(0 <= k, k < k2, k2 < n), fs[0](k) < fs[0](k2)), patterns=[z3.MultiPattern(fs[0](k), fs[0](k2))]))
        # completeness: every true index is listed
        i = z3.Int(nm + "!i")
        inv = c.uf(nm + "!inv", z3.IntSort(), z3.IntSort())
        c.binders.append([i])
        try:
            ai = a.elem(i)
        finally:
            c.binders.pop()
        c.add_fact(z3.ForAll([i], z3.Implies(z3.And(0 <= i, i < a.shape[0], ai), z3.And(0 <= inv(i), inv(i) < n, fs[0](inv(i)) == i)), patterns=[inv(i)]))
    else:
        c.add_fact(z3.ForAll([k, k2], z3.Implies(z3.And(0 <= k, k < k2, k2 < n), fs[0](k) <= fs[0](k2)), patterns=[z3.MultiPattern(fs[0](k), fs[0](k2))]))
    r = Arr(2, (n, a.ndim), el, "num")
    r.argw = (a, n, fs)
    return Val.of_arr(r)


NPFUNCS = {
    "minimum": np_minimum, "maximum": np_maximum, "all": np_all, "any": np_any, "isfinite": np_isfinite,
    "isnan": np_isnan, "isinf": np_isinf, "invert": np_invert, "logical_not": np_invert,
    "logical_and": np_logical(lambda a, b: z3.And(a, b)), "logical_or": np_logical(lambda a, b: z3.Or(a, b)),
    "abs": np_abs, "round": np_round, "floor": np_floor, "ceil": np_ceil,
    "sqrt": uf1("sqrt", _sqrt_facts), "log": uf1("log", _log_facts), "exp": uf1("exp", _exp_facts), "log2": uf1("log2"),
    "copy": np_copy, "atleast_2d": np_atleast_2d, "atleast_1d": np_atleast_1d, "full": np_full, "zeros": np_zeros,
    "ones": np_ones, "empty": np_empty, "size": np_size, "vstack": np_vstack, "append": np_append,
    "concatenate": np_concatenate, "argmin": np_argmin, "argmax": np_argmax, "min": np_min, "max": np_max,
    "amin": np_min, "amax": np_max, "sum": np_sum, "unique": np_unique, "sort": np_sort, "argsort": np_argsort,
    "array": np_array, "asarray": np_array, "reshape": np_reshape, "isscalar": np_isscalar, "isreal": np_isreal,
    "finfo": np_finfo, "mean": np_mean, "std": np_std, "pad": np_pad, "tril": np_tril, "eye": np_eye, "transpose": np_transpose, "mod": np_mod, "spacing": np_spacing, "delete": np_delete, "squeeze": np_squeeze, "argwhere": np_argwhere,
    "math.ceil": np_ceil, "math.floor": np_floor, "math.sqrt": uf1("sqrt", _sqrt_facts), "math.log": uf1("log", _log_facts),
}


def call_np(eng, name, st, args, kw, node):
    f = NPFUNCS.get(name)
    if f is None:
        if name.startswith("random.") or name in ("random",):
            eng.effect("draws_rng", node)
        ctx().note("opaque-call", eng.where(node), "np." + name)
        return opaque("np_" + name.replace(".", "_"))
    try:
        return f(eng, st, args, kw, node)
    except (IndexError, AttributeError, TypeError) as ex:
        ctx().note("model-gap", eng.where(node), "np.%s: %s" % (name, ex))
        return opaque("np_" + name)


# array methods ---------------------------------------------------------------
def call_arr_method(eng, a, base, meth, st, args, kw, node):
    if meth == "copy":
        return Val(arr=a, none=None)
    if meth in ("flatten", "ravel"):
        return Val.of_arr(flatten(a))
    if meth == "item":
        e = a.elem(*([I0] * a.ndim))
        return Val.of_bool(e) if a.dtype == "bool" else Val.of_num(e)
    if meth == "all":
        return np_all(eng, st, [base] + args, kw, node)
    if meth == "any":
        return np_any(eng, st, [base] + args, kw, node)
    if meth == "min":
        return np_min(eng, st, [base] + args, kw, node)
    if meth == "max":
        return np_max(eng, st, [base] + args, kw, node)
    if meth == "sum":
        return np_sum(eng, st, [base] + args, kw, node)
    if meth == "squeeze":
        return np_squeeze(eng, st, [base], kw, node)
    if meth == "reshape":
        if len(args) == 1:
            return np_reshape(eng, st, [base, args[0]], kw, node)
        return np_reshape(eng, st, [base, Val.of_tup(args)], kw, node)
    if meth == "astype":
        t = args[0]
        if t.py is not None and t.py in (("builtin", "bool"),):
            return Val.of_arr(_boolarr(base))
        if t.py is not None and t.py[0] == "str" and t.py[1] == "float":
            return base
        if t.py is not None and t.py == ("builtin", "float"):
            return base
        ctx().note("opaque-expr", eng.where(node), "astype")
        return opaque("astype")
    if meth == "transpose":
        return Val.of_arr(transpose(a))
    if meth == "argmin":
        return np_argmin(eng, st, [base], kw, node)
    ctx().note("opaque-call", eng.where(node), "ndarray." + meth)
    return opaque("arr_" + meth)
