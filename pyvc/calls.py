"""Call handling: contracts (modular), inlining of small helpers, inferred frames,
external models."""
import ast
import z3

from . import npmodel, frames
from .vals import arr_fresh
from .vals import N, Arr, Val, ctx, val_ite, n_fresh, n_round, n_floor, n_abs, n_minimum, n_maximum, arr_forall, arr_exists, _real, n_ite
from .symexec import State, Exit, SpecCtx, is_heap, ATTR_CLASS, Undecided, exc_matches

# in-repo helpers that are inlined (their bodies are executed at the call site)
INLINE = {"force_to_grid", "period_check", "grid_units", "maskindex", "_update_search_bounds_", "_eval_improvement_",
          "_update_incumbent_", "_check_mesh_overflow_"}
# calls that have no effect on tracked state and whose value is never used by a contract
SKIP_METHODS = {"info", "warning", "warn", "debug", "error", "log", "setLevel", "basicConfig", "start_timer", "stop_timer",
                "seterr", "_display_function_log_", "_log_column_headers", "format"}
PURE_METHODS = {"get", "copy", "item", "flatten", "astype", "reshape", "squeeze", "all", "any", "min", "max", "keys", "items",
                "values", "predict", "get_hyperparameters", "get_priors", "get_bounds", "hyperparameters_to_dict",
                "hyperparameters_from_dict", "get_duration", "sum", "ravel", "transpose", "argmin", "get_bounds_info",
                "hyperparameter_count", "compute", "strip", "sections", "lower", "upper", "join", "split", "startswith", "endswith",
                "index", "count", "tolist", "mean", "std", "dot", "conj", "view", "nonzero", "cumsum", "argmax", "argsort", "is_integer"}
MUTATING_METHODS = {"append", "extend", "update", "pop", "clear", "sort", "insert", "remove", "setdefault", "add", "fill",
                    "record", "record_iteration", "popitem", "discard", "reverse"}


def class_of(eng, base_node, base_val):
    if base_val.py is not None and base_val.py[0] == "instance":
        return base_val.py[1]
    nm = None
    if isinstance(base_node, ast.Attribute):
        nm = base_node.attr
    elif isinstance(base_node, ast.Name):
        nm = base_node.id
    if nm == "self" and eng.frame_cls:
        return eng.frame_cls[-1]
    return ATTR_CLASS.get(nm)


def eval_args(eng, e, st):
    args, kw = [], {}
    for a in e.args:
        if isinstance(a, ast.Starred):
            v = eng.ev(a.value, st)
            if v.tup is not None:
                args.extend(v.tup)
            else:
                args.append(Val.fresh("starargs"))
        else:
            args.append(eng.ev(a, st))
    for k in e.keywords:
        if k.arg is None:
            eng.ev(k.value, st)
        else:
            kw[k.arg] = eng.ev(k.value, st)
    return args, kw


def call(eng, e, st):
    f = e.func
    # spec-only functions -------------------------------------------------
    if eng.spec is not None and isinstance(f, ast.Name) and f.id in SPECFUNCS:
        return SPECFUNCS[f.id](eng, e, st)
    if isinstance(f, ast.Name):
        nm = f.id
        if nm in st.env:
            fv = st.env[nm]
            args, kw = eval_args(eng, e, st)
            return call_value(eng, fv, args, kw, st, e)
        if nm in npmodel.BUILTINS and eng.index.function(nm) is None:
            args, kw = eval_args(eng, e, st)
            return call_builtin(eng, nm, args, kw, st, e)
        fi = eng.index.function(nm)
        if fi is not None:
            args, kw = eval_args(eng, e, st)
            return call_repo(eng, fi, None, args, kw, st, e)
        if nm in eng.index.classes:
            args, kw = eval_args(eng, e, st)
            return construct(eng, nm, args, kw, st, e)
        args, kw = eval_args(eng, e, st)
        return call_external(eng, nm, None, args, kw, st, e)
    if isinstance(f, ast.Attribute):
        meth = f.attr
        # super().__init__()
        if isinstance(f.value, ast.Call) and isinstance(f.value.func, ast.Name) and f.value.func.id == "super":
            sargs, skw = eval_args(eng, e, st)
            # super().m(...): the first repository base class defining m, called on self (bases outside the repository,
            # e.g. dict / ABC, have no effect that is tracked)
            cur = eng.func.cls if eng.func is not None else None
            bases = [b for b in eng.index.class_bases.get(cur, []) if b in eng.index.classes] if cur else []
            sfi = eng.index.method(bases[0], meth) if bases else None
            if sfi is not None and "self" in st.env and eng.inline_depth == 0:
                return call_repo(eng, sfi, st.env["self"], sargs, skw, st, e)
            return Val.of_none()
        base = eng.ev(f.value, st)
        args, kw = eval_args(eng, e, st)
        if isinstance(f.value, ast.Name) and f.value.id == "dict" and meth in ("__setitem__", "__getitem__", "__len__", "__iter__", "__delitem__"):
            # dict.__setitem__(obj, key, value) on a dict subclass: plain store / load of the key
            obj = args[0] if args else None
            if obj is not None and obj.ref is not None and len(args) >= 2 and args[1].py is not None and args[1].py[0] == "str":
                path = obj.ref + "[" + repr(args[1].py[1]) + "]"
                if meth == "__setitem__":
                    st.env[path] = args[2]
                    return Val.of_none()
                if meth == "__getitem__":
                    return eng.lookup(st, path)
            if obj is not None and obj.ref is not None and meth in ("__setitem__", "__delitem__"):
                eng.havoc_prefix(st, obj.ref)
            return Val.fresh("dictop")
        if base.py is not None:
            k = base.py[0]
            if k == "module":
                mod = base.py[1]
                if mod in ("np", "numpy"):
                    return npmodel.call_np(eng, meth, st, args, kw, e)
                if mod in ("np.random", "rnd"):
                    eng.effect("draws_rng", e)
                    return call_random(eng, meth, args, kw, st, e)
                if mod == "np.linalg":
                    return npmodel.call_np(eng, "linalg." + meth, st, args, kw, e)
                if mod == "math":
                    return npmodel.call_np(eng, "math." + meth, st, args, kw, e)
                if mod == "copy":
                    return deepcopy(eng, args[0], st)
                if mod == "logging":
                    return Val(py=("module", "logging")) if meth == "getLogger" else Val.of_none()
                return call_external(eng, mod + "." + meth, None, args, kw, st, e)
            if k == "class":
                fi = eng.index.method(base.py[1], meth)
                if fi is not None:
                    return call_repo(eng, fi, None, args, kw, st, e)
        if meth in SKIP_METHODS:
            return Val.of_none() if meth != "format" else Val(s=z3.Int(ctx().fresh("fmt")), py=("fstr",))
        # scalar / 1-element identification
        if meth in ("flatten", "ravel", "squeeze", "copy", "item") and base.arr is None and (base.num is not None or base.boo is not None) and base.tup is None:
            if meth == "item":
                eng.safety_item(base, st, e)
            return base
        # arrays
        a = base.arr if base.arr is not None else (base.get_arr() if base.poly and eng.type_spec(base.poly) else None)
        if a is not None:
            return npmodel.call_arr_method(eng, a, base, meth, st, args, kw, e)
        # known class instance
        cls = class_of(eng, f.value, base)
        if cls is not None:
            fi = eng.index.method(cls, meth)
            if fi is not None:
                return call_repo(eng, fi, base, args, kw, st, e)
        # call of an attribute that holds a callable object: self.function_logger(u), self.fun(x), self.g(x)
        if meth in ATTR_CLASS or (base.ref is not None and (base.ref + "." + meth) in st.env) or eng.callable_spec(Val(ref=(base.ref or "?") + "." + meth)) is not None:
            fv = eng.ev(f, st)
            return call_value(eng, fv, args, kw, st, e)
        # dict-like reads
        if meth == "get" and base.ref is not None and args and args[0].py is not None and args[0].py[0] == "str":
            return eng.lookup(st, base.ref + "[" + repr(args[0].py[1]) + "]")
        if meth == "copy":
            if base.num is not None or base.boo is not None:
                return base
            return deepcopy(eng, base, st)
        if meth == "item":
            if base.num is not None or base.boo is not None or base.poly is not None:
                eng.safety_item(base, st, e)
                return Val(num=base.get_num()) if base.num is not None or base.poly else base
        if meth in GP_CONFIG_METHODS:
            # T4 (assumed contract on gpyreg): these GP methods read / write hyper-parameters, priors and bounds only; the
            # training set (X, y, s2) and temporary_data are left as they are
            ctx().note("opaque-call", eng.where(e), "." + meth)
            eng.external_effects(meth, base, e)
            return Val.fresh("m_" + meth)
        if meth == "fit" and "hyp0" in kw and "options" in kw:
            return _gp_fit(eng, base, args, kw, st, e)  # gpyreg GP.fit (keyword signature)
        if meth == "update" and ("compute_posterior" in kw or "hyp" in kw):
            return _gp_update(eng, base, args, kw, st, e)  # gpyreg GP.update (keyword signature), not dict.update
        if meth in MUTATING_METHODS and base.ref is not None:
            if base.tup is not None and meth == "append" and base.py == ("list",):
                lk, lkey = eng.lvalue(f.value, st)
                nv = Val.of_tup(base.tup + [args[0]])
                nv.py = ("list",)
                nv.ref = base.ref
                if lk in ("local", "heap"):
                    st.env[lkey] = nv
                    return Val.of_none()
            # list append with unknown content: container becomes unknown
            lk, lkey = eng.lvalue(f.value, st)
            if lk in ("local", "heap") and base.tup is not None:
                st.env[lkey] = Val(ref=base.ref, py=base.py, poly=ctx().fresh("lst"))
            eng.havoc_prefix(st, base.ref)
            return Val.fresh("mut")
        if meth in EXTERNAL_METHOD_MODELS:
            return EXTERNAL_METHOD_MODELS[meth](eng, base, args, kw, st, e)
        if meth in PURE_METHODS:
            ctx().note("opaque-call", eng.where(e), "." + meth)
            return Val.fresh("m_" + meth)
        return call_external(eng, meth, base, args, kw, st, e)
    # call of a computed callee (e.g. options["gp_mean_range_fun"](...))
    fv = eng.ev(f, st)
    args, kw = eval_args(eng, e, st)
    return call_value(eng, fv, args, kw, st, e)


def call_value(eng, fv, args, kw, st, e):
    if fv.py is not None:
        k = fv.py[0]
        if k == "callable_ite":
            _, cnd, fa, fb = fv.py
            ra = eng.guarded(st, cnd, lambda s2: call_value(eng, fa, args, kw, s2, e))
            rb = eng.guarded(st, z3.Not(cnd), lambda s2: call_value(eng, fb, args, kw, s2, e))
            return val_ite(cnd, ra, rb)
        if k == "lambda":
            return inline_lambda(eng, fv, args, kw, st, e)
        if k == "def":
            return inline_def(eng, fv.py[1], None, args, kw, st, e, closure=None)
        if k == "func":
            return call_repo(eng, eng.index.function(fv.py[1]), None, args, kw, st, e)
        if k == "builtin":
            return call_builtin(eng, fv.py[1], args, kw, st, e)
        if k == "class":
            return construct(eng, fv.py[1], args, kw, st, e)
        if k == "npfunc":
            return npmodel.call_np(eng, fv.py[1], st, args, kw, e)
        if k == "instance":
            fi = eng.index.method(fv.py[1], "__call__")
            if fi is not None:
                return call_repo(eng, fi, fv, args, kw, st, e)
    # a stored callable with a known spec name (target, constraint, closures of VariableTransformer)
    spec = eng.callable_spec(fv)
    if spec is not None:
        return spec(eng, fv, args, kw, st, e)
    # object with __call__ by attribute name
    if isinstance(e.func, (ast.Attribute, ast.Name)):
        cls = class_of(eng, e.func, fv)
        if cls is not None:
            fi = eng.index.method(cls, "__call__")
            if fi is not None:
                return call_repo(eng, fi, fv, args, kw, st, e)
    return call_external(eng, "<callable>", fv, args, kw, st, e)


def inline_lambda(eng, fv, args, kw, st, e):
    lam, closure = fv.py[1], fv.py[2]
    names = [a.arg for a in lam.args.args]
    saved = {k: v for k, v in st.env.items() if not is_heap(k)}
    for k in list(st.env):
        if not is_heap(k):
            del st.env[k]
    st.env.update(closure)
    # closures see later rebinding of enclosing locals (late binding): prefer current values
    for k, v in saved.items():
        if k in closure:
            st.env[k] = v
    for n_, v in zip(names, args):
        st.env[n_] = v
    eng.inline_depth += 1
    try:
        r = eng.ev(lam.body, st)
    finally:
        eng.inline_depth -= 1
    for k in list(st.env):
        if not is_heap(k):
            del st.env[k]
    st.env.update(saved)
    return r


def bind_params(eng, fi_params, defaults, self_val, args, kw, st, e, is_method):
    params = list(fi_params)
    b = {}
    if is_method and params:
        b[params[0]] = self_val
        params = params[1:]
    for p, v in zip(params, args):
        b[p] = v
    for k, v in kw.items():
        b[k] = v
    for p in params:
        if p not in b:
            d = defaults.get(p)
            if d is not None:
                b[p] = eng.ev(d, State(st.pc, {}))
            else:
                b[p] = Val.fresh(p)
    return b


def inline_def(eng, node, fi, args, kw, st, e, closure=None, self_val=None):
    """Execute a callee body at the call site (no contract)."""
    if eng.inline_depth > 6:
        ctx().note("inline-depth", eng.where(e), node.name)
        return Val.fresh("deep")
    params = [a.arg for a in node.args.args]
    defaults = {}
    ds = node.args.defaults
    for a, d in zip(params[len(params) - len(ds):], ds):
        defaults[a] = d
    b = bind_params(eng, params, defaults, self_val, args, kw, st, e, self_val is not None)
    saved = {k: v for k, v in st.env.items() if not is_heap(k)}
    for k in list(st.env):
        if not is_heap(k):
            del st.env[k]
    st.env.update(b)
    eng.inline_depth += 1
    old_func = eng.func
    if fi is not None:
        eng.func = fi
        eng.frame_cls.append(fi.cls)
    eng.exit_stack.append([])
    try:
        out = eng.exec_block(node.body, st.copy())
    finally:
        exits = eng.exit_stack.pop()
        eng.inline_depth -= 1
        if fi is not None:
            eng.func = old_func
            eng.frame_cls.pop()
    rets = []
    if out is not None:
        rets.append((out, Val.of_none()))
    for x in exits:
        if x.kind == "return":
            rets.append((x.st, x.val))
        elif x.kind == "raise":
            # restore caller locals in the exceptional state
            for k in list(x.st.env):
                if not is_heap(k):
                    del x.st.env[k]
            x.st.env.update(saved)
            eng.push_exit(x)
    if not rets:
        st.pc = z3.BoolVal(False)
        st.env.update(saved)
        return Val.fresh("noreturn")
    # merge return states
    acc_st, acc_v = rets[-1]
    for s2, v2 in reversed(rets[:-1]):
        acc_v = val_ite(s2.pc, v2, acc_v)
        acc_st = eng.merge_states(s2.pc, s2, acc_st)
    st.pc = acc_st.pc
    st.env.clear()
    for k, v in acc_st.env.items():
        if is_heap(k):
            st.env[k] = v
    st.env.update(saved)
    return acc_v


def construct(eng, cls, args, kw, st, e):
    ref = "$%s%d" % (cls, next(ctx().counter))
    obj = Val(ref=ref, py=("instance", cls))
    fi = eng.index.method(cls, "__init__")
    if fi is not None:
        c = eng.registry.get(fi.qual)
        if c is not None or eng.want_inline(fi):
            call_repo(eng, fi, obj, args, kw, st, e)
        else:
            ctx().note("opaque-call", eng.where(e), cls + ".__init__ (fields unknown)")
    return obj


def deepcopy(eng, v, st):
    if v.arr is not None or v.num is not None or v.boo is not None or v.s is not None:
        r = Val(none=v.none, num=v.num, boo=v.boo, arr=v.arr, s=v.s, py=v.py if v.py and v.py[0] == "str" else None)
        return r
    if v.tup is not None:
        return Val.of_tup([deepcopy(eng, x, st) for x in v.tup])
    r = Val.fresh("copy")
    r.none = v.none
    if v.poly is not None:
        # equal value, fresh identity: the copy shares the (lazily created) value facets of the original
        r.poly = v.poly
    if v.py is not None and v.py[0] == "instance":
        r.py = v.py
    # shallow model of the copied object's tracked children: equal values, fresh identity
    if v.ref is not None:
        for k in list(st.env):
            if k.startswith(v.ref) and len(k) > len(v.ref) and k[len(v.ref)] in ".[":
                st.env[r.ref + k[len(v.ref):]] = st.env[k]
    return r


def call_random(eng, meth, args, kw, st, e):
    c = ctx()
    if meth == "randint":
        lo = args[0].get_num()
        hi = args[1].get_num() if len(args) > 1 and not args[1].is_static_none() else (kw["high"].get_num() if "high" in kw else None)
        if hi is None:
            lo, hi = N(0), lo
        size = args[2] if len(args) > 2 else kw.get("size")
        if size is None:
            r = n_fresh(c.fresh("randint"), "int")
            c.add_fact(z3.And(_real(lo.r) <= r.r, r.r < _real(hi.r)))
            return Val.of_num(r)
        shp = npmodel._shape_arg(eng, size)
        if shp is not None and len(shp) <= 2:
            nm = c.fresh("randint")
            f = c.uf(nm, *([z3.IntSort()] * (len(shp) + 1)))

            hi_int = _structurally_int(z3.simplify(hi.r))

            def el(*i):
                t = f(*i)
                c.add_fact(z3.And(_real(lo.r) <= t, t < _real(hi.r)), key=("randint", nm, tuple(str(x) for x in i)))
                if hi_int:
                    # integer draw below an integer bound: t <= hi - 1 (stated explicitly to keep queries linear)
                    c.add_fact(z3.ToReal(t) <= _real(hi.r) - 1, key=("randint1", nm, tuple(str(x) for x in i)))
                return N(t)

            return Val.of_arr(Arr(len(shp), shp, el))
    if meth in ("rand", "uniform", "normal", "randn", "permutation", "choice", "seed"):
        if meth == "seed":
            eng.effect("seeds_rng", e)
            return Val.of_none()
        if meth == "rand" and not args:
            r = n_fresh(c.fresh("rand"))
            c.add_fact(z3.And(r.r >= 0, r.r < 1))
            return Val.of_num(r)
        if meth == "rand" and len(args) == 1 and args[0].num is not None and args[0].arr is None:
            # np.random.rand(n): vector of n draws in [0, 1)
            nm = c.fresh("randv")
            f = c.uf(nm, z3.IntSort(), z3.RealSort())
            nn = args[0].get_num().r
            nn = nn if z3.is_int(nn) else z3.ToInt(nn)

            def el1(i):
                t = f(i)
                c.add_fact(z3.And(t >= 0, t < 1), key=("randv", nm, str(i)))
                return N(t)

            return Val.of_arr(Arr(1, (nn,), el1))
        if meth == "permutation" and args and args[0].arr is not None and args[0].arr.ndim == 2:
            a = args[0].arr
            nm = c.fresh("rperm")
            perm = c.uf(nm, z3.IntSort(), z3.IntSort())
            inv = c.uf(nm + "!inv", z3.IntSort(), z3.IntSort())
            k = z3.Int(nm + "!k")
            n = a.shape[0]
            # a permutation of [0,n) extended to a bijection of Z (identity outside): inverse equations without guards
            # (guarded versions make E-matching loop when the guard is not provable)
            c.add_fact(z3.ForAll([k], z3.And(inv(perm(k)) == k, z3.Implies(z3.And(0 <= k, k < n), z3.And(0 <= perm(k), perm(k) < n))), patterns=[perm(k)]))
            c.add_fact(z3.ForAll([k], z3.And(perm(inv(k)) == k, z3.Implies(z3.And(0 <= k, k < n), z3.And(0 <= inv(k), inv(k) < n))), patterns=[inv(k)]))
            r = Arr(2, a.shape, lambda i, j: a.elem(perm(i), j), a.dtype)
            r.rowperm = (perm, inv, a)
            return Val.of_arr(r)
    ctx().note("opaque-call", eng.where(e), "np.random." + meth)
    return Val.fresh("rand")


def call_builtin(eng, nm, args, kw, st, e):
    c = ctx()
    if nm == "len" and not args:
        npmodel.raise_here(eng, st, "TypeError", e)  # len() without argument
        return Val.fresh("len")
    if nm == "len":
        v = args[0]
        a = v.get_arr() if (v.arr is not None or v.poly) else None
        if a is not None and a.ndim >= 1:
            return Val.of_num(N(a.shape[0]))
        if v.tup is not None:
            return Val.of_num(N(len(v.tup)))
        if v.py is not None and v.py[0] == "str":
            return Val.of_num(N(len(v.py[1])))
        if v.ref is not None:
            return eng.lookup(st, v.ref + ".__len__")
        r = n_fresh(c.fresh("len"), "int")
        c.add_fact(r.r >= 0)
        return Val.of_num(r)
    if nm in ("int", "float"):
        if not args:
            return Val.of_num(N(0))
        v = args[0]
        if v.py is not None and v.py[0] == "str":
            try:
                return Val.of_num(N(float(v.py[1])))
            except ValueError:
                return Val.fresh("float")
        n = v.get_num()
        if nm == "float":
            return Val.of_num(N(_real(n.r), n.t))
        if n.is_int():
            return Val.of_num(n)
        r = _real(n.r)
        tr = z3.If(r >= 0, z3.ToInt(r), -z3.ToInt(-r))
        return Val.of_num(N(tr))
    if nm == "bool":
        return Val.of_bool(args[0].get_bool()) if args else Val.of_bool(False)
    if nm == "abs":
        return npmodel.lift1(n_abs, args[0])
    if nm == "round":
        return Val.of_num(n_round(args[0].get_num()))
    if nm in ("min", "max"):
        vals = args
        if len(args) == 1 and args[0].tup is not None:
            vals = args[0].tup
        if len(vals) >= 2 and all(v.arr is None for v in vals):
            r = vals[0].get_num()
            for v in vals[1:]:
                r = n_minimum(r, v.get_num()) if nm == "min" else n_maximum(r, v.get_num())
            return Val.of_num(r)
        return Val.fresh(nm)
    if nm == "isinstance":
        v, t = args
        if t.py is not None:
            tn = t.py[1] if len(t.py) > 1 else None
            if tn in ("np.ndarray",):
                if v.arr is not None:
                    return Val.of_bool(z3.Not(v.none) if v.none is not None else True)
                if v.num is not None or v.boo is not None or v.tup is not None or v.is_static_none():
                    return Val.of_bool(False)
                if v.poly is not None:
                    k_ = eng.kind_is(v, "ndarray")
                    return Val.of_bool(z3.And(z3.Not(v.none), k_) if v.none is not None else k_)
            if t.py[0] == "class" and v.py is not None and v.py[0] == "instance":
                return Val.of_bool(v.py[1] == tn)
        r = z3.Bool(c.fresh("isinstance"))
        if v.none is not None:
            r = z3.And(z3.Not(v.none), r)  # None is an instance of nothing we ever test for
        return Val.of_bool(r)
    if nm == "type":
        v = args[0]
        if v.tup is not None and v.py != ("list",):
            return Val(py=("builtin", "tuple"))
        if v.poly is not None:
            return Val(py=("typeof", v.poly), poly=c.fresh("type"))
        return Val.fresh("type")
    if nm == "callable":
        v = args[0]
        if v.py is not None and v.py[0] in ("lambda", "def", "func", "builtin", "class", "npfunc"):
            return Val.of_bool(True)
        if v.num is not None or v.is_static_none() or v.arr is not None:
            return Val.of_bool(False)
        return Val.of_bool(z3.Bool(c.fresh("callable")))
    if nm == "str":
        return Val(s=z3.Int(c.fresh("str")), py=("fstr",))
    if nm == "print":
        return Val.of_none()
    if nm == "dict":
        ref = "$dict%d" % next(c.counter)
        return Val(ref=ref, py=("dict",))
    if nm == "set":
        return Val(ref="$set%d" % next(c.counter), py=("set",))
    if nm == "list":
        if not args:
            v = Val.of_tup([])
            v.py = ("list",)
            v.ref = "$list%d" % next(c.counter)
            return v
        return Val.fresh("list")
    if nm == "tuple":
        return args[0] if args and args[0].tup is not None else Val.fresh("tuple")
    if nm == "range":
        return Val.fresh("range")
    if nm in ("any", "all"):
        return Val.of_bool(z3.Bool(c.fresh(nm)))
    ctx().note("opaque-call", eng.where(e), nm)
    return Val.fresh(nm)


# ---------------------------------------------------------------------------
# repository callees
# ---------------------------------------------------------------------------
def stub_history_record(eng, fi, self_val, args, kw, st, e):
    """ASSUMED contract of IterationHistory.record(key, value, iteration) for a literal key (conformance of the real
    container code is checked by the bounded reference-model test replay/history_model.py):
    iteration < 0 raises ValueError; otherwise the array stored under `key` has length max(len, iteration+1),
    element `iteration` is a copy of `value`, every other element is unchanged, no other key changes."""
    b = bind_params(eng, fi.params, fi.defaults, self_val, args, kw, st, e, True)
    key, value, it = b["key"], b["value"], b["iteration"]
    if self_val.ref is None or key.py is None or key.py[0] != "str":
        if self_val.ref is not None:
            eng.havoc_prefix(st, self_val.ref)
        return Val.of_none()
    path = self_val.ref + "[" + repr(key.py[1]) + "]"
    itv = eng.as_int(it)
    neg = z3.simplify(itv < 0)
    if not z3.is_false(neg):
        xs = st.copy()
        xs.pc = z3.And(st.pc, neg)
        ex = Exit("raise", xs, exc="ValueError", where=eng.where(e))
        ex.tag = "call[record]"
        eng.push_exit(ex)
        st.pc = z3.And(st.pc, z3.Not(neg))
    cur = eng.lookup(st, path)
    a = cur.get_arr()
    va = value.get_arr()
    if a is None:
        eng.havoc_path(st, path)
        return Val.of_none()
    rows = a.shape[0]
    if cur.none is not None:
        rows = z3.If(cur.none, z3.IntVal(0), rows)
    nrows = z3.simplify(z3.If(itv + 1 > rows, itv + 1, rows))
    if a.ndim == 2 and va is not None and va.ndim >= 1:
        vf = va if va.ndim == 1 else npmodel.flatten(va)
        r = Arr(2, (nrows, a.shape[1]), lambda i, j: n_ite(i == itv, vf.elem(j), a.elem(i, j)), "num")
        r.rowf = lambda i: z3.If(i == itv, vf.row(None), a.row(i))
        st.env[path] = Val(arr=r, ref=path)
    elif a.ndim == 1 and (value.num is not None or value.poly is not None or va is not None):
        n = value.get_num()
        r = Arr(1, (nrows,), lambda i: n_ite(i == itv, n, a.elem(i)), "num")
        st.env[path] = Val(arr=r, ref=path)
    else:
        eng.havoc_path(st, path)
    return Val.of_none()


STUBS = {"pybads.utils.iteration_history.IterationHistory.record": stub_history_record}


def call_repo(eng, fi, self_val, args, kw, st, e):
    if fi.qual in STUBS and fi.qual not in eng.registry:
        eng.assumed_contracts.add(fi.qual)
        return STUBS[fi.qual](eng, fi, self_val, args, kw, st, e)
    c = eng.registry.get(fi.qual)
    is_method = fi.cls is not None and fi.params and fi.params[0] in ("self", "cls") and not _is_static(fi)
    if self_val is None and is_method:
        # ClassName.method(obj, ...) style or unresolved receiver
        if args:
            self_val, args = args[0], args[1:]
        else:
            self_val = Val.fresh("self")
    caller_c = eng.cur_contract
    force_inline = caller_c is not None and eng.inline_depth == 0 and fi.name in caller_c.inline_calls
    force_opaque = caller_c is not None and fi.name in caller_c.opaque_calls
    if c is not None and not force_inline:
        return apply_contract(eng, fi, c, self_val, args, kw, st, e)
    if not force_opaque and (force_inline or eng.want_inline(fi)):
        return inline_def(eng, fi.node, fi, args, kw, st, e, self_val=self_val if is_method else None)
    # no contract: havoc the inferred frame, opaque result
    b = bind_params(eng, fi.params, fi.defaults, self_val, args, kw, st, e, is_method)
    fr = frames.frame_of(eng, fi)
    apply_frame(eng, fr, b, st, e)
    for eff in fr.effects:
        eng.effect(eff, e)
    if fr.may_call_target:
        eng.effect("calls_target", e)
    ctx().note("uncontracted-call", eng.where(e), fi.qual)
    return Val.fresh("r_" + fi.name)


def _is_static(fi):
    for d in fi.node.decorator_list:
        if isinstance(d, ast.Name) and d.id in ("staticmethod",):
            return True
    return False


def resolve_path(eng, path_expr, binding, st):
    """Evaluate an lvalue path (in callee terms) against caller state."""
    node = ast.parse(path_expr, mode="eval").body if isinstance(path_expr, str) else path_expr
    s2 = State(st.pc, {k: v for k, v in st.env.items() if is_heap(k)})
    s2.env.update(binding)
    old = eng.spec
    eng.spec = None
    try:
        kind, key = eng.lvalue(node, s2)
    finally:
        eng.spec = old
    return kind, key


def apply_frame(eng, fr, binding, st, e):
    for p in sorted(fr.paths):
        try:
            kind, key = resolve_path(eng, p, binding, st)
        except Exception:
            kind, key = None, None
        if kind == "heap":
            eng.havoc_path(st, key)
        elif kind == "elem":
            pass
    for p in sorted(fr.prefixes):
        try:
            node = ast.parse(p, mode="eval").body
            s2 = State(st.pc, {k: v for k, v in st.env.items() if is_heap(k)})
            s2.env.update(binding)
            v = eng.ev(node, s2)
            if v.ref is not None:
                eng.havoc_prefix(st, v.ref)
                k2, key2 = eng.lvalue(node, s2)
                if k2 == "heap" and v.arr is not None:
                    eng.havoc_path(st, key2)
        except Exception:
            ctx().note("frame-resolve", eng.where(e), p)


def spec_state(eng, st, binding):
    s2 = State(st.pc, {k: v for k, v in st.env.items() if is_heap(k)})
    s2.env.update(binding)
    return s2


def apply_contract(eng, fi, c, self_val, args, kw, st, e):
    is_method = fi.cls is not None and fi.params and fi.params[0] in ("self", "cls")
    b = bind_params(eng, fi.params, fi.defaults, self_val, args, kw, st, e, is_method)
    k = eng.call_counts.get(fi.name, 0)
    eng.call_counts[fi.name] = k + 1
    tag = "call[%s]#%d" % (fi.name, k)
    eng.used_contracts.add(fi.qual)
    # the callee's typing of paths rooted at its parameters applies to the corresponding caller paths
    for tp, tspec in c.types.items():
        try:
            kind, key = resolve_path(eng, tp, b, st)
        except Exception:
            continue
        if kind == "heap" and key not in ctx().types:
            ctx().types[key] = eng.localise_spec(tspec, b, st)
    pre = spec_state(eng, st, b)
    lets = dict(c.lets)
    saved_cc, saved_spec = eng.cur_contract, eng.spec
    try:
        eng.cur_contract = c
        eng.spec = None
        # typing info of the callee's paths is not re-declared at the caller
        for cl in c.requires:
            if not eng.rel(cl):
                continue
            forced = None
            try:
                g = eng.eval_clause(cl, pre, pre=pre, polarity=1, lets=lets)
            except Undecided as ex:
                g, forced = z3.BoolVal(True), str(ex)
            eng.cur_contract = saved_cc
            eng.oblige("%s::pre::%s" % (tag, cl.name), st, g, "pre", False, cl.props, e, cl)
            if forced:
                eng.obligations[-1].forced = ("unknown", "precondition not expressible at this call site: " + forced[:300])
            eng.cur_contract = c
        # exceptional exits -------------------------------------------------
        for rs in c.raises:
            cond = z3.Bool(ctx().fresh("raises_" + rs.exc))
            if rs.when is not None:
                w = eng.truth(eng.ev_spec(rs.when, pre, pre=pre, polarity=-1, lets=lets))
                cond = z3.And(cond, w) if not getattr(rs, "iff", False) else w
            xs = st.copy()
            xs.pc = z3.And(st.pc, cond)
            # exceptional frame: modifies havocked unless exceptional ensures pin them
            post_x = havoc_modifies(eng, c, b, xs, e, fi)
            for cl in rs.ensures:
                g = eng.eval_clause(cl, spec_state(eng, xs, b), pre=pre, polarity=-1, lets=lets)
                xs.pc = z3.And(xs.pc, g)
            ex = Exit("raise", xs, exc=rs.exc, where=eng.where(e))
            ex.from_call = fi.name
            ex.tag = "%s" % tag
            eng.push_exit(ex)
            st.pc = z3.And(st.pc, z3.Not(cond))
        # normal exit ---------------------------------------------------------
        havoc_modifies(eng, c, b, st, e, fi)
        res = make_result(eng, c, fi, st, b)
        post = spec_state(eng, st, b)
        post.env["result"] = res
        for cl in c.ensures:
            if not eng.rel(cl):
                continue
            g = eng.eval_clause(cl, post, pre=pre, polarity=-1, lets=lets)
            ctx().add_fact(z3.Implies(st.pc, g))
        for cl in c.assume:
            pass
    finally:
        eng.cur_contract, eng.spec = saved_cc, saved_spec
    eng.effects_of_contract(c, e)
    return res


def havoc_modifies(eng, c, b, st, e, fi):
    paths = c.modifies
    if paths is None:
        fr = frames.frame_of(eng, fi)
        apply_frame(eng, fr, b, st, e)
        return
    for p in paths:
        kind, key = resolve_path(eng, p, b, st)
        if kind == "heap":
            # keep declared type of callee path
            spec = c.types.get(p)
            if spec is not None:
                ctx().types.setdefault(key, eng.localise_spec(spec, b, st))
            eng.havoc_path(st, key)
        elif kind == "local":
            pass
    for p in c.modifies_prefix:
        node = ast.parse(p, mode="eval").body
        v = eng.ev(node, spec_state(eng, st, b))
        if v.ref is not None:
            eng.havoc_prefix(st, v.ref)


def make_result(eng, c, fi, st, b):
    spec = c.result
    nm = ctx().fresh("res_" + fi.name)
    if spec is None:
        return Val(poly=nm, ref="$" + nm)
    if spec.get("builder"):
        return spec["builder"](eng, c, b, st, None)
    return eng.build_from_spec(spec, nm, spec_state(eng, st, b))


def _erfcinv(eng, args, kw, st, e):
    x = args[0].get_num()
    s = z3.simplify(_real(x.r))
    if z3.is_rational_value(s) and s.numerator_as_long() == s.denominator_as_long():
        return Val.of_num(N(0))
    f = ctx().uf("erfcinv", z3.RealSort(), z3.RealSort())
    r = f(_real(x.r))
    ctx().add_fact(z3.Implies(_real(x.r) == 1, r == 0), key=("erfcinv", str(x.r)))
    return Val.of_num(N(r))


def _gp_predict(eng, base, args, kw, st, e):
    """T4 (assumed contract on gpyreg): GP.predict is pure and returns (mu, s2), one row per query row, s2 >= 0."""
    x = args[0].get_arr() if args else None
    if x is None or x.ndim != 2:
        return Val.fresh("predict")
    c = ctx()
    mu = arr_fresh(c.fresh("gp_mu"), 2, (x.shape[0], z3.IntVal(1)))
    s2u = arr_fresh(c.fresh("gp_s2"), 2, (x.shape[0], z3.IntVal(1)))
    inner = s2u._elem

    def el(i, j):
        v = inner(i, j)
        c.add_fact(v.r >= 0, key=("s2pos", str(v.r)))
        return v

    s2u._elem = el
    return Val.of_tup([Val.of_arr(mu), Val.of_arr(s2u)])


EXTERNAL_MODELS = {"erfcinv": _erfcinv}
GP_CONFIG_METHODS = {"set_priors", "set_hyperparameters", "set_bounds", "get_priors", "get_bounds", "get_hyperparameters", "hyperparameters_to_dict",
                     "hyperparameters_from_dict", "get_recommended_bounds"}


def _gp_fit(eng, base, args, kw, st, e):
    """T4 (assumed contract on gpyreg): GP.fit(X, y, s2, hyp0=, options=) needs one target (and, when given, one noise
    variance) per training input, mutates only the GP, returns (hyp, optimisation result, diagnostics) and may fail with
    numpy.linalg.LinAlgError (Cholesky of a non-positive-definite covariance) - as often as the ghost fault budget
    allows: each failure consumes one unit of ghost.fault_budget."""
    from .symexec import Exit
    c = ctx()
    k = eng.call_counts.get("fit", 0)
    eng.call_counts["fit"] = k + 1
    if len(args) >= 2:
        X, Y = args[0].get_arr() if args[0].arr is not None else None, args[1].get_arr() if args[1].arr is not None else None
        S = args[2] if len(args) > 2 else kw.get("s2")
        if X is not None and Y is not None:
            goal = Y.shape[0] == X.shape[0]
            if S is not None and not S.is_static_none():
                sa = S.get_arr() if S.arr is not None else None
                if sa is not None and sa.ndim >= 1:
                    ok = sa.shape[0] == X.shape[0]
                    goal = z3.And(goal, z3.Or(S.none, ok) if S.none is not None else ok)
            eng.oblige("call[fit]#%d::pre::one_target_and_one_noise_variance_per_training_input" % k, st, goal, "pre", True, ("C16",), e)
    bud = eng.lookup(st, "ghost.fault_budget").get_num().r
    fails = z3.And(z3.Bool(c.fresh("fit_fails")), bud > 0)
    xs = st.copy()
    xs.pc = z3.And(st.pc, fails)
    xs.env["ghost.fault_budget"] = Val.of_num(N(bud - 1))
    if base is not None and base.ref is not None:
        eng.havoc_prefix(xs, base.ref)
    ex = Exit("raise", xs, exc="LinAlgError", where=eng.where(e))
    ex.tag = "external[GP.fit]"
    eng.push_exit(ex)
    st.pc = z3.And(st.pc, z3.Not(fails))
    if base is not None and base.ref is not None:
        eng.havoc_prefix(st, base.ref)
    eng.external_effects("fit", base, e)
    return Val.of_tup([Val.fresh("fit_hyp"), Val.fresh("fit_opt"), Val.fresh("fit_res")])


def _gp_update(eng, base, args, kw, st, e):
    """T4 (assumed contract on gpyreg): GP.update recomputes the posterior; the training set (X, y, s2) and temporary_data
    are left as they are."""
    if "hyp" in kw:
        # posterior recomputation for new hyper-parameters may fail like a fit (Cholesky), within the ghost fault budget
        from .symexec import Exit
        bud = eng.lookup(st, "ghost.fault_budget").get_num().r
        fails = z3.And(z3.Bool(ctx().fresh("update_fails")), bud > 0)
        xs = st.copy()
        xs.pc = z3.And(st.pc, fails)
        xs.env["ghost.fault_budget"] = Val.of_num(N(bud - 1))
        ex = Exit("raise", xs, exc="LinAlgError", where=eng.where(e))
        ex.tag = "external[GP.update]"
        eng.push_exit(ex)
        st.pc = z3.And(st.pc, z3.Not(fails))
    if base is not None and base.ref is not None:
        eng.havoc_prefix(st, base.ref + ".posteriors")
        eng.havoc_path(st, base.ref + ".posteriors")
    eng.external_effects("update", base, e)
    return Val.of_none()


EXTERNAL_METHOD_MODELS = {"predict": _gp_predict}


def call_external(eng, name, base, args, kw, st, e):
    if base is None and name in EXTERNAL_MODELS:
        return EXTERNAL_MODELS[name](eng, args, kw, st, e)
    ctx().note("external-call", eng.where(e), name)
    # receiver of an unknown method is assumed mutated (gp.fit, gp.update, ...)
    if base is not None and base.ref is not None and name not in PURE_METHODS:
        eng.havoc_prefix(st, base.ref)
    eng.external_effects(name, base, e)
    return Val.fresh("ext_" + name.replace(".", "_").replace("<", "").replace(">", ""))


# ---------------------------------------------------------------------------
# spec functions
# ---------------------------------------------------------------------------
def sf_old(eng, e, st):
    pre = eng.spec.pre
    if pre is None:
        raise Undecided("old() without pre-state")
    s2 = pre.copy()
    # parameters / locals of the spec environment remain visible
    for k, v in st.env.items():
        if not is_heap(k) and k not in s2.env:
            s2.env[k] = v
    return eng.ev(e.args[0], s2)


def _flip(eng):
    eng.spec.polarity = -eng.spec.polarity


def sf_implies(eng, e, st):
    _flip(eng)
    a = eng.truth(eng.ev(e.args[0], st))
    _flip(eng)
    b = eng.truth(eng.ev(e.args[1], st))
    return Val.of_bool(z3.Implies(a, b))


def sf_iff(eng, e, st):
    pol = eng.spec.polarity
    eng.spec.polarity = 0
    a = eng.truth(eng.ev(e.args[0], st))
    b = eng.truth(eng.ev(e.args[1], st))
    eng.spec.polarity = pol
    return Val.of_bool(a == b)


def sf_not(eng, e, st):
    _flip(eng)
    a = eng.truth(eng.ev(e.args[0], st))
    _flip(eng)
    return Val.of_bool(z3.Not(a))


def sf_forall(eng, e, st, exists=False):
    """forall(n, lambda i: P) / forall(n, m, lambda i, j: P): indices range over [0,n) x [0,m)."""
    lam = e.args[-1]
    bounds = [eng.as_int(eng.ev(a, st)) for a in e.args[:-1]]
    names = [a.arg for a in lam.args.args]
    c = ctx()
    pol = eng.spec.polarity
    skolem = (pol > 0 and not exists) or (pol < 0 and exists)
    vs = [z3.Int(c.fresh("sk_" + n if skolem else "q_" + n)) for n in names]
    s2 = st.copy()
    for n_, v in zip(names, vs):
        s2.env[n_] = Val.of_num(N(v))
    rng = z3.And(*[z3.And(v >= 0, v < b) for v, b in zip(vs, bounds)]) if bounds else z3.BoolVal(True)
    if skolem:
        body = eng.truth(eng.ev(lam.body, s2))
        return Val.of_bool(z3.And(rng, body) if exists else z3.Implies(rng, body))
    c.binders.append(vs)
    try:
        body = eng.truth(eng.ev(lam.body, s2))
    finally:
        c.binders.pop()
    if exists:
        return Val.of_bool(z3.Exists(vs, z3.And(rng, body)))
    return Val.of_bool(z3.ForAll(vs, z3.Implies(rng, body)))


def sf_exists(eng, e, st):
    return sf_forall(eng, e, st, exists=True)


def sf_rows(eng, e, st):
    v = eng.ev(e.args[0], st)
    a = v.get_arr()
    if a is None and v.is_static_none():
        return Val.of_num(N(0))
    if a is None:
        raise Undecided("rows() of a non-array in contract")
    return Val.of_num(N(a.shape[0]))


def sf_cols(eng, e, st):
    v = eng.ev(e.args[0], st)
    a = v.get_arr()
    if a is None:
        raise Undecided("cols() of a non-array in contract")
    return Val.of_num(N(a.shape[-1]))


def sf_ite(eng, e, st):
    pol = eng.spec.polarity
    eng.spec.polarity = 0
    t = eng.truth(eng.ev(e.args[0], st))
    eng.spec.polarity = pol
    return val_ite(t, eng.ev(e.args[1], st), eng.ev(e.args[2], st))


def _structurally_int(t):
    if z3.is_int(t):
        return True
    if z3.is_rational_value(t):
        return t.denominator_as_long() == 1
    if z3.is_app(t):
        k = t.decl().kind()
        if k == z3.Z3_OP_TO_REAL:
            return True
        if k == z3.Z3_OP_ITE:
            return _structurally_int(t.arg(1)) and _structurally_int(t.arg(2))
        if k in (z3.Z3_OP_ADD, z3.Z3_OP_SUB, z3.Z3_OP_MUL, z3.Z3_OP_UMINUS):
            return all(_structurally_int(c) for c in t.children())
    return False


def sf_isint(eng, e, st):
    n = eng.ev(e.args[0], st).get_num()
    if n.is_int() or _structurally_int(z3.simplify(n.r)):
        return Val.of_bool(True)  # integer by construction (ints, ToReal of ints, sums/products/ite of such)
    return Val.of_bool(z3.IsInt(_real(n.r)))


def sf_isnone(eng, e, st):
    return Val.of_bool(eng.ev(e.args[0], st).none_term())


def sf_pw(eng, e, st):
    return Val.of_num(npmodel.n_pow(eng.ev(e.args[0], st).get_num(), eng.ev(e.args[1], st).get_num()))


def sf_ghost(eng, e, st):
    """ghost(name, args...) -> uninterpreted real-valued ghost function."""
    name = e.args[0].value
    args = [eng.ev(a, st).get_num() for a in e.args[1:]]
    f = ctx().uf("ghost_" + name, *([z3.RealSort()] * (len(args) + 1)))
    return Val.of_num(N(f(*[_real(a.r) for a in args])))


def sf_ghostp(eng, e, st):
    name = e.args[0].value
    args = [eng.ev(a, st).get_num() for a in e.args[1:]]
    f = ctx().uf("ghostp_" + name, *([z3.RealSort()] * len(args) + [z3.BoolSort()]))
    return Val.of_bool(f(*[_real(a.r) for a in args]))


def sf_same(eng, e, st):
    """same(a, b): structural equality of two values (numbers, bools, arrays elementwise)."""
    a, b = eng.ev(e.args[0], st), eng.ev(e.args[1], st)
    return Val.of_bool(eng.val_equal(a, b))


def sf_truthy(eng, e, st):
    return Val.of_bool(eng.truth(eng.ev(e.args[0], st)))


def sf_isfinite(eng, e, st):
    return npmodel.np_isfinite(eng, st, [eng.ev(e.args[0], st)], {}, e)


def sf_isnan(eng, e, st):
    return npmodel.np_isnan(eng, st, [eng.ev(e.args[0], st)], {}, e)


def sf_num(eng, e, st):
    return Val.of_num(eng.ev(e.args[0], st).get_num())


def sf_streq(eng, e, st):
    a, b = eng.ev(e.args[0], st), eng.ev(e.args[1], st)
    return Val.of_bool(a.get_str() == b.get_str())


def sf_count_true(eng, e, st):
    v = eng.ev(e.args[0], st)
    a = v.get_arr()
    if a is None or a.dtype != "bool":
        raise Undecided("count_true() needs a boolean array")
    return Val.of_num(N(npmodel.count_true(a)))


def sf_sum_of(eng, e, st):
    v = eng.ev(e.args[0], st)
    a = v.get_arr()
    r = npmodel.sum_real(a) if (a is not None and a.ndim == 1 and a.dtype == "num") else None
    if r is None:
        raise Undecided("sum_of() needs a 1-D real array")
    return Val.of_num(r)


def _as_pt(eng, v):
    if v.py is not None and v.py[0] == "pt":
        return v.py[1]
    a = v.get_arr()
    if a is not None and a.ndim == 1:
        return a.row(None)
    raise Undecided("expected a point (1-D array or row) in contract expression, got %r" % (v,))


def sf_row(eng, e, st):
    v0 = eng.ev(e.args[0], st)
    a = v0.get_arr()
    if a is None and v0.is_static_none():
        # rows of None: the enclosing range is empty; any point will do
        return Val(py=("pt", z3.Const(ctx().fresh("nopt"), z3.ArraySort(z3.IntSort(), z3.RealSort()))))
    if a is None or a.ndim != 2:
        raise Undecided("row() needs a 2-D array")
    k = eng.as_int(eng.ev(e.args[1], st))
    return Val(py=("pt", a.row(k)))


def sf_pt(eng, e, st):
    return Val(py=("pt", _as_pt(eng, eng.ev(e.args[0], st))))


def _ptfun(name, res_pt=True):
    def f(eng, e, st):
        PT = z3.ArraySort(z3.IntSort(), z3.RealSort())
        p = _as_pt(eng, eng.ev(e.args[0], st))
        if res_pt:
            return Val(py=("pt", ctx().uf(name, PT, PT)(p)))
        return Val.of_num(N(ctx().uf(name, PT, z3.RealSort())(p)))

    return f


def sf_acqv(eng, e, st):
    """AcqV(point, t): value of the LCB acquisition at a point for evaluation count t (fixed GP state / beta argument)."""
    PT = z3.ArraySort(z3.IntSort(), z3.RealSort())
    p = _as_pt(eng, eng.ev(e.args[0], st))
    t = eng.ev(e.args[1], st).get_num().r
    return Val.of_num(N(ctx().uf("AcqV", PT, z3.IntSort(), z3.RealSort())(p, t if z3.is_int(t) else z3.ToInt(t))))


def sf_argsort_rank(eng, e, st):
    """argsort_rank(idx, i): position of index i in idx = np.argsort(a) (the inverse permutation)."""
    a = eng.ev(e.args[0], st).get_arr()
    pm = getattr(a, "perm", None) if a is not None else None
    if pm is None:
        raise Undecided("argsort_rank(): not the result of np.argsort")
    pm[0](z3.IntVal(0))  # make sure the permutation axioms are stated
    i = eng.as_int(eng.ev(e.args[1], st))
    return Val.of_num(N(pm[1](i)))


def sf_isunbound(eng, e, st):
    """isunbound(name): the local has no value on the current path (opt-in unbound-local tracking)."""
    nm = e.args[0].id
    if nm not in st.env:
        return Val.of_bool(True)
    return Val.of_bool(st.env.get("#undef:" + nm, z3.BoolVal(False)))


def sf_isscalar(eng, e, st):
    """isscalar(v): v is a number, not an array (decided from the shape of the symbolic value)."""
    v = eng.ev(e.args[0], st)
    if v.arr is not None and v.arr.ndim >= 1:
        return Val.of_bool(False)
    if v.num is not None or getattr(v, "lazy", None) is not None or (v.arr is not None and v.arr.ndim == 0):
        return Val.of_bool(True)
    raise Undecided("isscalar(): value of unknown kind")


def sf_haskey(eng, e, st):
    d = eng.ev(e.args[0], st)
    if d.ref is None or not isinstance(e.args[1], ast.Constant):
        raise Undecided("haskey(d, 'k') needs a tracked dictionary and a constant key")
    return Val.of_bool(eng.lookup_state_has_key(d.ref, e.args[1].value))


def sf_feasx(eng, e, st):
    from contracts import models

    return Val.of_bool(models.feasx(_as_pt(eng, eng.ev(e.args[0], st))))


def sf_pteq(eng, e, st):
    return Val.of_bool(_as_pt(eng, eng.ev(e.args[0], st)) == _as_pt(eng, eng.ev(e.args[1], st)))


def sf_ptat(eng, e, st):
    p = _as_pt(eng, eng.ev(e.args[0], st))
    return Val.of_num(N(z3.Select(p, eng.as_int(eng.ev(e.args[1], st)))))


def sf_upd(eng, e, st):
    """upd(a, i, v): 1-D array a with a[i] := v, grown to length max(len, i+1) (ghost arrays)."""
    a = eng.ev(e.args[0], st).get_arr()
    i = eng.as_int(eng.ev(e.args[1], st))
    v = eng.ev(e.args[2], st).get_num()
    if a is None or a.ndim != 1:
        raise Undecided("upd() needs a 1-D array")
    n = z3.simplify(z3.If(i + 1 > a.shape[0], i + 1, a.shape[0]))
    return Val.of_arr(Arr(1, (n,), lambda k: n_ite(k == i, v, a.elem(k)), "num"))


def _seqfun(which):
    def f(eng, e, st):
        from contracts import models
        k = eng.as_int(eng.ev(e.args[0], st))
        if which == "argpt":
            return Val(py=("pt", models.argpt(k)))
        return Val.of_num(N(models.retval(k) if which == "retval" else models.retsd(k)))

    return f


def _statfun(name):
    def f(eng, e, st):
        return npmodel.stat_uf(name, eng.ev(e.args[0], st))

    return f


def sf_ghost_sqrt(eng, e, st):
    """sqrt(size of the array) as np.sqrt(a.size) computes it."""
    a = eng.ev(e.args[0], st).get_arr()
    if a is None:
        raise Undecided("ghost_sqrt needs an array")
    return npmodel.NPFUNCS["sqrt"](eng, st, [Val.of_num(N(a.size()))], {}, e)


def sf_abs(eng, e, st):
    return npmodel.lift1(npmodel.n_abs, eng.ev(e.args[0], st))


def sf_fmax(eng, e, st):
    npmodel.np_finfo(eng, st, [], {}, e)
    return eng.lookup(st, "$finfo.max")


def sf_lemma(eng, e, st):
    """lemma("name", t1, ...): instance of a scalar lemma proved separately (pyvc/lemmas.py)."""
    from . import lemmas
    from .vals import _real
    name = e.args[0].value
    args = [_real(eng.ev(a, st).get_num().r) for a in e.args[1:]]
    eng.lemmas_used.add(name)
    return Val.of_bool(lemmas.instance(name, args))


def sf_colperm(eng, e, st):
    """colperm(A, j): for A = transpose(rnd.permutation(L)) the index of the row of L that became column j (bijection facts
    come with the model of rnd.permutation)."""
    a = eng.ev(e.args[0], st).get_arr()
    cp = getattr(a, "colperm", None) if a is not None else None
    if cp is None:
        raise Undecided("colperm(): the array is not the transpose of a row permutation")
    return Val.of_num(N(cp[0](eng.as_int(eng.ev(e.args[1], st)))))


SPECFUNCS = {
    "colperm": sf_colperm,
    "lemma": sf_lemma,
    "fmax": sf_fmax,
    "ghost_sqrt": sf_ghost_sqrt, "abs": sf_abs,
    "retval": _seqfun("retval"), "retsd": _seqfun("retsd"), "argpt": _seqfun("argpt"), "mean_of": _statfun("mean"), "std_of": _statfun("std"),
    "upd": sf_upd,
    "row": sf_row, "pt": sf_pt, "invt": _ptfun("InvT"), "fwdt": _ptfun("FwdT"), "cval": _ptfun("Cval", False), "feasx": sf_feasx,
    "pteq": sf_pteq, "ptat": sf_ptat,
    "count_true": sf_count_true, "sum_of": sf_sum_of, "acqv": sf_acqv, "haskey": sf_haskey, "isscalar": sf_isscalar, "isunbound": sf_isunbound, "argsort_rank": sf_argsort_rank,
    "old": sf_old, "implies": sf_implies, "iff": sf_iff, "forall": sf_forall, "exists": sf_exists, "rows": sf_rows,
    "cols": sf_cols, "ite": sf_ite, "isint": sf_isint, "isnone": sf_isnone, "pw": sf_pw, "ghost": sf_ghost,
    "ghostp": sf_ghostp, "same": sf_same, "truthy": sf_truthy, "isfinite": sf_isfinite, "isnan": sf_isnan, "num": sf_num,
    "streq": sf_streq, "lnot": sf_not,
}
