"""Syntactic may-write (frame) inference for repository functions and loop bodies."""
import ast

from .symexec import ATTR_CLASS
from .vals import ctx

PURE_METHODS = None
MUTATING_METHODS = None
SKIP_METHODS = None

RNG_CALLS = {"randint", "rand", "randn", "normal", "uniform", "permutation", "choice", "random", "shuffle"}


class Frame:
    def __init__(self):
        self.paths = set()  # exact heap paths in callee terms: 'self.u', 'self.optim_state["fval"]'
        self.prefixes = set()  # whole objects / dicts with unknown keys
        self.effects = set()  # draws_rng, seeds_rng, writes_global, ...
        self.may_call_target = False
        self.calls = set()

    def union(self, other, subst=None):
        for p in other.paths:
            q = _subst(p, subst)
            if q is not None:
                self.paths.add(q)
        for p in other.prefixes:
            q = _subst(p, subst)
            if q is not None:
                self.prefixes.add(q)
        self.effects |= other.effects
        self.may_call_target |= other.may_call_target


def _root(p):
    for i, ch in enumerate(p):
        if ch in ".[":
            return p[:i]
    return p


def _subst(p, subst):
    if subst is None:
        return p
    r = _root(p)
    if r == "ghost":
        return p
    if r not in subst:
        return None
    if subst[r] is None:
        return None
    return subst[r] + p[len(r):]


def path_of(node, aliases=None):
    """Render an access path expression; None if not a pure path."""
    if isinstance(node, ast.Name):
        if aliases and node.id in aliases:
            return aliases[node.id]
        return node.id
    if isinstance(node, ast.Attribute):
        b = path_of(node.value, aliases)
        return None if b is None else b + "." + node.attr
    if isinstance(node, ast.Subscript):
        b = path_of(node.value, aliases)
        if b is None:
            return None
        k = node.slice
        if isinstance(k, ast.Constant) and isinstance(k.value, (str, int)) and not isinstance(k.value, bool):
            return b + "[" + repr(k.value) + "]"
        return b + "[*]"
    if isinstance(node, ast.Call) and isinstance(node.func, ast.Attribute) and node.func.attr == "get" and node.args and isinstance(node.args[0], ast.Constant):
        b = path_of(node.func.value, aliases)
        return None if b is None else b + "[" + repr(node.args[0].value) + "]"
    return None


_CACHE = {}


def _methods():
    global PURE_METHODS, MUTATING_METHODS, SKIP_METHODS
    if PURE_METHODS is None:
        from . import calls

        PURE_METHODS, MUTATING_METHODS, SKIP_METHODS = calls.PURE_METHODS, calls.MUTATING_METHODS, calls.SKIP_METHODS


def frame_of(eng, fi, _stack=None):
    key = (id(eng.index), fi.qual)
    if key in _CACHE:
        return _CACHE[key]
    _stack = _stack or []
    if fi.qual in _stack:
        return Frame()
    fr = Frame()
    roots = set(fi.params)
    analyse(eng, fi.node.body, fr, roots, fi.cls, _stack + [fi.qual])
    c = eng.registry.get(fi.qual)
    if c is not None and c.modifies is not None:
        # declared frame of a contracted callee (includes ghost state) replaces the inferred one:
        # the callee's body is checked against it (obligations frame::<path>)
        from .contracts import norm_path
        fr.paths, fr.prefixes = set(), set()
        for p in c.modifies:
            fr.paths.add(norm_path(p))
        for p in c.modifies_prefix:
            fr.prefixes.add(norm_path(p))
    _CACHE[key] = fr
    return fr


def collect_aliases(stmts, roots):
    """local -> path, for locals only ever assigned pure path expressions rooted at params."""
    cands = {}
    bad = set()
    for n in _walk(stmts):
        if isinstance(n, ast.Assign):
            for t in n.targets:
                if isinstance(t, ast.Name):
                    p = path_of(n.value)
                    if p is not None and _root(p) in roots and "[*]" not in p:
                        if t.id in cands and cands[t.id] != p:
                            bad.add(t.id)
                        cands[t.id] = p
                    elif isinstance(n.value, ast.Subscript) and path_of(n.value) is not None and _root(path_of(n.value)) in roots:
                        # element of a tracked container with dynamic index: alias of (part of) that container
                        cands.setdefault(t.id, path_of(n.value.value))
                    else:
                        bad.add(t.id) if t.id in cands else None
                        if t.id not in cands:
                            cands[t.id] = None
                elif isinstance(t, (ast.Tuple, ast.List)):
                    for x in ast.walk(t):
                        if isinstance(x, ast.Name):
                            if x.id in cands and cands[x.id] is not None:
                                bad.add(x.id)
                            cands.setdefault(x.id, None)
        elif isinstance(n, (ast.For,)):
            for x in ast.walk(n.target):
                if isinstance(x, ast.Name):
                    cands.setdefault(x.id, None)
    return {k: v for k, v in cands.items() if v is not None and k not in bad and k not in roots}


def _walk(stmts):
    for s in stmts:
        yield from _walk_node(s)


def _walk_node(n):
    yield n
    for c in ast.iter_child_nodes(n):
        if isinstance(c, (ast.FunctionDef, ast.Lambda, ast.ClassDef)):
            continue
        yield from _walk_node(c)


def analyse(eng, stmts, fr, roots, cls, stack):
    _methods()
    aliases = collect_aliases(stmts, roots)

    def note_store(t):
        if isinstance(t, (ast.Tuple, ast.List)):
            for x in t.elts:
                note_store(x)
            return
        if isinstance(t, ast.Starred):
            note_store(t.value)
            return
        if isinstance(t, ast.Name):
            return
        p = path_of(t, aliases)
        if p is None:
            # store through a computed base: try the base path
            b = t.value if isinstance(t, (ast.Attribute, ast.Subscript)) else None
            while b is not None:
                pb = path_of(b, aliases)
                if pb is not None and _root(pb) in roots:
                    fr.prefixes.add(pb.replace("[*]", ""))
                    return
                b = getattr(b, "value", None)
            return
        if _root(p) not in roots:
            return
        if isinstance(t, ast.Subscript):
            k = t.slice
            if not (isinstance(k, ast.Constant) and isinstance(k.value, str)):
                # element store into an array / dynamic key: the container itself changes
                base = path_of(t.value, aliases)
                if base is not None:
                    if "[*]" in base:
                        fr.prefixes.add(base.split("[*]")[0])
                    else:
                        fr.paths.add(base)
                        fr.prefixes.add(base)
                return
        if "[*]" in p:
            fr.prefixes.add(p.split("[*]")[0])
        else:
            fr.paths.add(p)

    for n in _walk(stmts):
        if isinstance(n, ast.Assign):
            for t in n.targets:
                note_store(t)
        elif isinstance(n, (ast.AugAssign, ast.AnnAssign)):
            note_store(n.target)
        elif isinstance(n, (ast.For,)):
            note_store(n.target)
        elif isinstance(n, ast.Global):
            fr.effects.add("writes_global")
        elif isinstance(n, ast.Call):
            analyse_call(eng, n, fr, roots, cls, stack, aliases)


def analyse_call(eng, n, fr, roots, cls, stack, aliases):
    f = n.func
    callee = None
    subst = None
    recv = None
    if isinstance(f, ast.Name):
        if f.id in ("exec", "eval"):
            fr.effects.add("exec_eval")
            return
        fi = eng.index.function(f.id)
        if fi is not None:
            callee = fi
            subst = _arg_subst(fi.params, n, aliases, roots, None)
        elif f.id in eng.index.classes:
            fi = eng.index.method(f.id, "__init__")
            if fi is not None:
                callee = fi
                subst = _arg_subst(fi.params[1:], n, aliases, roots, None)
                subst[fi.params[0]] = None
        elif f.id in ATTR_CLASS and eng.index.method(ATTR_CLASS[f.id], "__call__") is not None:
            fi = eng.index.method(ATTR_CLASS[f.id], "__call__")
            callee = fi
            subst = _arg_subst(fi.params[1:], n, aliases, roots, None)
            subst[fi.params[0]] = f.id if f.id in roots else None
        else:
            # call of a local / parameter callable
            if f.id in ("fun",):
                fr.may_call_target = True
            return
    elif isinstance(f, ast.Attribute):
        m = f.attr
        recv = path_of(f.value, aliases)
        base_name = f.value.attr if isinstance(f.value, ast.Attribute) else (f.value.id if isinstance(f.value, ast.Name) else None)
        if isinstance(f.value, ast.Name) and f.value.id in ("np", "numpy", "math", "sys", "copy", "logging", "os", "scipy", "gpr", "plt", "logger", "traceback"):
            return
        if isinstance(f.value, ast.Attribute) and isinstance(f.value.value, ast.Name) and f.value.value.id in ("np", "numpy", "scipy", "gpr"):
            if f.value.attr == "random":
                fr.effects.add("seeds_rng" if m == "seed" else "draws_rng")
            return
        if isinstance(f.value, ast.Name) and f.value.id == "rnd":
            fr.effects.add("draws_rng")
            return
        if m == "fun" and base_name in ("self", "function_logger"):
            fr.may_call_target = True
            return
        if m == "record" and n.args and isinstance(n.args[0], ast.Constant) and isinstance(n.args[0].value, str) and recv is not None and _root(recv) in roots \
                and base_name in ATTR_CLASS and ATTR_CLASS[base_name] == "IterationHistory":
            # IterationHistory.record with a literal key touches exactly that key (assumed contract, bounded-checked)
            fr.paths.add(recv + "[" + repr(n.args[0].value) + "]")
            return
        c = None
        if base_name == "self" and cls:
            c = cls
        elif base_name in ATTR_CLASS:
            c = ATTR_CLASS[base_name]
        if m in ATTR_CLASS and eng.index.method(ATTR_CLASS[m], "__call__") is not None:
            # direct call of an object attribute: self.function_logger(...)
            fi = eng.index.method(ATTR_CLASS[m], "__call__")
            callee = fi
            recv = path_of(f, aliases)
            subst = _arg_subst(fi.params[1:], n, aliases, roots, None)
            subst[fi.params[0]] = recv if (recv is not None and _root(recv) in roots) else None
        elif c is not None:
            fi = eng.index.method(c, m)
            if fi is not None:
                callee = fi
                subst = _arg_subst(fi.params[1:], n, aliases, roots, None)
                subst[fi.params[0]] = recv if (recv is not None and _root(recv) in roots) else None
        if callee is None:
            if m in SKIP_METHODS or m in PURE_METHODS:
                if m in ("fit", "sample"):
                    fr.effects.add("draws_rng")
                return
            if recv is not None and _root(recv) in roots:
                fr.prefixes.add(recv.replace("[*]", ""))
                if "[" not in recv and "." in recv:
                    pass
            if m in ("fit", "update", "sample", "random", "random_base2"):
                fr.effects.add("draws_rng")
            return
    elif isinstance(f, ast.Call) or isinstance(f, ast.Subscript):
        return
    if callee is not None:
        sub = frame_of(eng, callee, stack)
        fr.union(sub, subst)
        fr.calls.add(callee.qual)
        # direct call of the logger object: self.function_logger(...)
    # object call: x(...) where x is an attribute with __call__
    if callee is None and isinstance(f, ast.Attribute):
        pass


def _arg_subst(params, call, aliases, roots, _):
    subst = {}
    for p, a in zip(params, call.args):
        pa = path_of(a, aliases)
        subst[p] = pa if (pa is not None and _root(pa) in roots and "[*]" not in pa) else None
    for kw in call.keywords:
        if kw.arg is not None:
            pa = path_of(kw.value, aliases)
            subst[kw.arg] = pa if (pa is not None and _root(pa) in roots and "[*]" not in pa) else None
    for p in params:
        subst.setdefault(p, None)
    return subst


def call_of_object(eng, n, cls_hint):
    return None


def loop_writes(eng, loop, st):
    """(locals, heap paths, heap prefixes) possibly written by a loop body, resolved against st."""
    from .symexec import is_heap

    body = loop.body + loop.orelse
    locals_mod = set()
    for n in _walk(body):
        if isinstance(n, (ast.Assign, ast.AugAssign, ast.AnnAssign, ast.For)):
            targets = n.targets if isinstance(n, ast.Assign) else [n.target]
            for t in targets:
                for x in ast.walk(t):
                    if isinstance(x, ast.Name) and isinstance(x.ctx, ast.Store):
                        locals_mod.add(x.id)
                # element store / attribute store into a local container: local changes
                b = t
                while isinstance(b, (ast.Subscript, ast.Attribute)):
                    b = b.value
                if isinstance(b, ast.Name) and b is not t and b.id in st.env and not is_heap(b.id):
                    v = st.env[b.id]
                    if v.ref is None or v.arr is not None:
                        locals_mod.add(b.id)
        elif isinstance(n, ast.Call) and isinstance(n.func, ast.Attribute) and isinstance(n.func.value, ast.Name):
            _methods()
            if n.func.attr in MUTATING_METHODS and n.func.value.id in st.env:
                v = st.env[n.func.value.id]
                if v.tup is not None:
                    locals_mod.add(n.func.value.id)
        elif isinstance(n, (ast.With,)):
            for it in n.items:
                if it.optional_vars is not None:
                    for x in ast.walk(it.optional_vars):
                        if isinstance(x, ast.Name):
                            locals_mod.add(x.id)
        elif isinstance(n, ast.NamedExpr):
            locals_mod.add(n.target.id)
    # heap effects: analyse the body as a pseudo-function whose roots are all names
    fr = Frame()
    roots = {nm for nm in st.env if not is_heap(nm)} | set(eng.func.params) | {"self", "ghost"}
    analyse(eng, body, fr, roots, eng.frame_cls[-1] if eng.frame_cls else None, [eng.func.qual + "#loop"])
    heap, prefixes = set(), set()
    for p in fr.paths:
        try:
            kind, key = eng.lvalue(ast.parse(p, mode="eval").body, st.copy())
        except Exception:
            kind, key = None, None
        if kind == "heap":
            heap.add(key)
        elif kind == "local":
            locals_mod.add(key)
        elif kind == "elem":
            locals_mod.add(_root(p))
    for p in fr.prefixes:
        try:
            node = ast.parse(p, mode="eval").body
            s2 = st.copy()
            v = eng.ev(node, s2)
            if v.ref is not None:
                prefixes.add(v.ref)
            kind, key = eng.lvalue(node, s2)
            if kind == "heap" and v.arr is not None:
                heap.add(key)
            if kind == "local":
                if v.arr is not None or v.ref is None:
                    locals_mod.add(key)
        except Exception:
            ctx().note("frame-resolve", eng.where(loop), p)
    # the assumed contract of gpyreg's GP.fit / GP.update(hyp=) consumes the ghost fault budget
    for n in _walk(body):
        if isinstance(n, ast.Call) and isinstance(n.func, ast.Attribute):
            kws = {k.arg for k in n.keywords}
            if (n.func.attr == "fit" and {"hyp0", "options"} <= kws) or (n.func.attr == "update" and "hyp" in kws):
                heap.add("ghost.fault_budget")
    # ghost variables updated by hooks attached to statements of the body
    cc = getattr(eng, "cur_contract", None)
    if cc is not None and getattr(cc, "hooks", None) and eng.inline_depth == 0:
        for n in _walk(body):
            if isinstance(n, (ast.Assign, ast.AugAssign, ast.Expr)):
                h = cc.hooks.get(ast.unparse(n))
                if h:
                    heap.update(h.keys())
    return locals_mod, heap, prefixes
