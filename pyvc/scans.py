"""Syntactic coverage obligations (pure Python over the freshly parsed AST)."""
import ast


def _calls(index):
    for q, fi in index.funcs.items():
        for n in ast.walk(fi.node):
            if isinstance(n, ast.Call):
                yield q, fi, n


def target_call_sites(index, registry):
    """The user target is invoked at exactly one site: FunctionLogger.__call__ (self.fun(x_orig))."""
    sites = []
    for q, fi, n in _calls(index):
        f = n.func
        if isinstance(f, ast.Attribute) and f.attr == "fun" and not (isinstance(f.value, ast.Name) and f.value.id in ("np",)):
            sites.append("%s:%d" % (q, n.lineno))
    ok = len(sites) == 1 and sites[0].startswith("pybads.function_logger.function_logger.FunctionLogger.__call__")
    return [{"name": "scan::target_called_only_by_FunctionLogger.__call__", "kind": "coverage", "top": True, "result": "unsat" if ok else "sat",
             "secs": 0.0, "detail": sites, "model": {"call_sites": sites}}]


def logger_call_sites(index, registry, expected_functions):
    """Every call of the logger object happens inside a function that is under contract for the property."""
    sites = []
    for q, fi, n in _calls(index):
        f = n.func
        if (isinstance(f, ast.Attribute) and f.attr == "function_logger") or (isinstance(f, ast.Name) and f.id in ("function_logger", "func_logger")):
            sites.append(q)
    extra = sorted(set(sites) - set(expected_functions))
    return [{"name": "scan::logger_called_only_from_contracted_functions", "kind": "coverage", "top": False, "result": "unsat" if not extra else "sat",
             "secs": 0.0, "detail": sorted(set(sites)), "model": {"uncontracted_callers": extra}}]


def deepcopy_on_store(index, registry):
    """Structural obligation: the containers store deep copies (IterationHistory.__setitem__/record, OptimizeResult.__setitem__)."""
    out = []
    for qual in ("pybads.utils.iteration_history.IterationHistory.__setitem__", "pybads.utils.iteration_history.IterationHistory.record",
                 "pybads.bads.optimize_result.OptimizeResult.__setitem__"):
        fi = index.find(qual)
        ok = False
        if fi is not None:
            for n in ast.walk(fi.node):
                # the stored value is the result of copy.deepcopy(<parameter>)
                if isinstance(n, ast.Call) and isinstance(n.func, ast.Attribute) and n.func.attr == "deepcopy" and n.args and isinstance(n.args[0], ast.Name) and n.args[0].id in ("val", "value"):
                    ok = True
        out.append({"name": "scan::deepcopy_on_store::" + qual.split(".")[-2] + "." + qual.split(".")[-1], "kind": "coverage", "top": True, "result": "unsat" if ok else "sat", "secs": 0.0,
                    "model": {"function": qual, "found": fi is not None}})
    return out


def lean_lemma(index, registry):
    """The mathematical half of C14: Lean 4 + Mathlib checks lemmas/Ltmads.lean (about 10 s warm, a few minutes cold)."""
    import os
    import subprocess
    import time
    src = os.path.join(os.path.dirname(os.path.dirname(os.path.abspath(__file__))), "lemmas", "Ltmads.lean")
    t0 = time.time()
    try:
        p = subprocess.run(["lake", "env", "lean", src], cwd="/opt/veriftools/mathlib4", capture_output=True, text=True, timeout=1500)
        out = (p.stdout + p.stderr)
        ok = p.returncode == 0 and "error" not in out and "sorry" not in out
        res = "unsat" if ok else "sat"
    except Exception as ex:  # noqa: BLE001
        out, res = repr(ex), "unknown"
    return [{"name": "lemma::Ltmads.lean::det_ltmads_ne_zero+pos_span_of_basis", "kind": "lemma", "top": True, "result": res, "secs": round(time.time() - t0, 1),
             "backend": "lean4+mathlib", "reason": out[-400:] if res != "unsat" else None, "model": {"lean_output": out[-400:]}}]


# ---------------------------------------------------------------------------------------------------------------------
# C07: causes of irreproducibility that contracts / effect scans can decide (level "other")
# ---------------------------------------------------------------------------------------------------------------------
RNG_NAMES = {"randint", "rand", "randn", "normal", "uniform", "permutation", "choice", "random", "shuffle", "standard_normal", "multivariate_normal", "random_sample"}
MUTATORS = {"append", "extend", "insert", "pop", "remove", "clear", "update", "setdefault", "add", "discard", "popitem", "sort", "reverse", "fill", "put", "resize", "__setitem__"}
LIB = ("pybads.testing", "pybads.examples", "pybads.bads.option_configs", "pybads.testing_utils")


def _lib_funcs(index):
    for q, fi in index.funcs.items():
        if not q.startswith(LIB) and ".testing." not in q and ".examples." not in q:
            yield q, fi


def _attr_chain(n):
    out = []
    while isinstance(n, ast.Attribute):
        out.append(n.attr)
        n = n.value
    if isinstance(n, ast.Name):
        out.append(n.id)
    return list(reversed(out))


def _draws_directly(call):
    ch = _attr_chain(call.func)
    if len(ch) >= 3 and ch[0] in ("np", "numpy") and ch[1] == "random" and ch[2] in RNG_NAMES:
        return True
    if len(ch) == 2 and ch[0] in ("rnd", "random") and ch[1] in RNG_NAMES:
        return True
    if ch and ch[-1] in ("fit", "sample", "slice_sample") and len(ch) >= 2:
        return True  # gpyreg optimiser restarts / samplers draw from NumPy's global generator
    return False


def _rng_closure(index):
    """Functions that (transitively, by simple name resolution over the repository) draw from NumPy's global generator."""
    direct, callees = set(), {}
    for q, fi in _lib_funcs(index):
        cs = set()
        for n in ast.walk(fi.node):
            if isinstance(n, ast.Call):
                if _draws_directly(n):
                    direct.add(q)
                name = n.func.id if isinstance(n.func, ast.Name) else (n.func.attr if isinstance(n.func, ast.Attribute) else None)
                if name:
                    cs.add(name)
        callees[q] = cs
    by_simple = {}
    for q, fi in _lib_funcs(index):
        by_simple.setdefault(q.split(".")[-1], set()).add(q)
    draws = set(direct)
    changed = True
    while changed:
        changed = False
        for q, cs in callees.items():
            if q in draws:
                continue
            for c in cs:
                if c in ("__init__",):
                    continue
                if by_simple.get(c, set()) & draws:
                    draws.add(q)
                    changed = True
                    break
    return draws, by_simple


def _stmt_draws(stmt, draws, by_simple, skip=()):
    for n in ast.walk(stmt):
        if isinstance(n, ast.Call):
            if _draws_directly(n):
                return ast.unparse(n)[:80]
            name = n.func.id if isinstance(n.func, ast.Name) else (n.func.attr if isinstance(n.func, ast.Attribute) else None)
            if name and name not in skip and (by_simple.get(name, set()) & draws):
                return ast.unparse(n)[:80]
    return None


def rng_typestate(index, registry):
    """Seeding precedes every draw: in BADS.__init__ and in BADS._init_optimization_ (first callee of optimize) the call of
    _init_random_seed_ comes before the first statement that (transitively) draws from NumPy's global generator or calls the
    target; _init_random_seed_ seeds with int(options['random_seed']) whenever it is not None; optimize draws nothing before
    _init_optimization_."""
    B = "pybads.bads.bads.BADS."
    draws, by_simple = _rng_closure(index)
    out = []

    def ob(name, ok, model):
        out.append({"name": "scan::rng::" + name, "kind": "typestate", "top": True, "result": "unsat" if ok else "sat", "secs": 0.0, "model": model})

    for fn in ("__init__", "_init_optimization_"):
        fi = index.find(B + fn)
        seed_at, early = None, None
        if fi is not None:
            for k, st in enumerate(fi.node.body):
                if any(isinstance(n, ast.Call) and isinstance(n.func, ast.Attribute) and n.func.attr == "_init_random_seed_" for n in ast.walk(st)):
                    seed_at = k
                    break
                d = _stmt_draws(st, draws, by_simple, skip=("_init_random_seed_",))
                if d and early is None:
                    early = "line %d: %s" % (st.lineno, d)
        ob("seeded_before_first_draw::" + fn, fi is not None and seed_at is not None and early is None, {"seed_statement_index": seed_at, "draw_before_seed": early})
    fi = index.find(B + "optimize")
    early, found = None, False
    if fi is not None:
        for st in fi.node.body:
            if any(isinstance(n, ast.Call) and isinstance(n.func, ast.Attribute) and n.func.attr == "_init_optimization_" for n in ast.walk(st)):
                found = True
                break
            d = _stmt_draws(st, draws, by_simple)
            if d and early is None:
                early = "line %d: %s" % (st.lineno, d)
    ob("optimize_draws_nothing_before_init", found and early is None, {"draw_before_init": early})
    fi = index.find(B + "_init_random_seed_")
    ok = False
    if fi is not None:
        src = ast.unparse(fi.node)
        ok = "np.random.seed(random_seed)" in src and "int(self.options['random_seed'])" in src and "is not None" in src
    ob("seed_is_applied_when_given", ok, {})
    # the Sobol design is seeded explicitly (from the start point, or from the already seeded global generator)
    fi = index.find("pybads.init_functions.init_sobol.init_sobol")
    ok, sites = fi is not None, []
    if fi is not None:
        for n in ast.walk(fi.node):
            if isinstance(n, ast.Call) and isinstance(n.func, ast.Name) and n.func.id == "Sobol":
                sites.append(ast.unparse(n))
                if not any(k.arg == "seed" and not (isinstance(k.value, ast.Constant) and k.value.value is None) for k in n.keywords):
                    ok = False
        ok = ok and bool(sites)
    ob("sobol_design_seeded_explicitly", ok, {"sites": sites})
    return out


def global_state_frame(index, registry):
    """No function of the library writes module-level or class-level mutable state, or mutates a mutable default argument;
    the one exception (exec of the evaluation parameters into the options module's globals) is followed in the same call by
    every eval that reads them."""
    bad = []
    class_level = {}
    for cls, cnode in getattr(index, "class_nodes", {}).items():
        for st in cnode.body:
            if isinstance(st, (ast.Assign, ast.AnnAssign)):
                for t in (st.targets if isinstance(st, ast.Assign) else [st.target]):
                    if isinstance(t, ast.Name):
                        class_level.setdefault(cls, set()).add(t.id)
    module_level = {}
    for path, tree in getattr(index, "trees", {}).items():
        names = set()
        for st in tree.body:
            if isinstance(st, (ast.Assign, ast.AnnAssign)):
                for t in (st.targets if isinstance(st, ast.Assign) else [st.target]):
                    if isinstance(t, ast.Name):
                        names.add(t.id)
        module_level[path] = names
    exec_ok = False
    for q, fi in _lib_funcs(index):
        mod_names = module_level.get(fi.path, set())
        cls_names = class_level.get(fi.cls, set()) if fi.cls else set()
        params = {a.arg for a in fi.node.args.args + fi.node.args.kwonlyargs}
        mut_defaults = set()
        pos = fi.node.args.args
        for a, d in zip(pos[len(pos) - len(fi.node.args.defaults):], fi.node.args.defaults):
            if isinstance(d, (ast.List, ast.Dict, ast.Set)) or (isinstance(d, ast.Call) and isinstance(d.func, ast.Name) and d.func.id in ("list", "dict", "set")):
                mut_defaults.add(a.arg)
        local_assigned = {n.id for n in ast.walk(fi.node) if isinstance(n, ast.Name) and isinstance(n.ctx, ast.Store)}

        def root(n):
            while isinstance(n, (ast.Attribute, ast.Subscript)):
                n = n.value
            return n

        for n in ast.walk(fi.node):
            if isinstance(n, ast.Global):
                bad.append("%s:%d global %s" % (q, n.lineno, ",".join(n.names)))
            tgt = None
            if isinstance(n, (ast.Assign, ast.AugAssign)):
                for t in (n.targets if isinstance(n, ast.Assign) else [n.target]):
                    if isinstance(t, (ast.Attribute, ast.Subscript)):
                        tgt = t
                        r = root(t)
                        ch = _attr_chain(t if isinstance(t, ast.Attribute) else t.value)
                        # ClassName.attr = / cls.attr = / type(self).attr =
                        if isinstance(r, ast.Name) and (r.id in index.classes or r.id == "cls"):
                            bad.append("%s:%d class-level store %s" % (q, n.lineno, ast.unparse(t)[:60]))
                        # store into a module-level container
                        if isinstance(r, ast.Name) and r.id in mod_names and r.id not in local_assigned and r.id not in params:
                            bad.append("%s:%d module-level store %s" % (q, n.lineno, ast.unparse(t)[:60]))
                        # self.X[...] = where X is defined at class level (shared by all instances)
                        if isinstance(t, ast.Subscript) and len(ch) == 2 and ch[0] == "self" and ch[1] in cls_names:
                            bad.append("%s:%d store into class-level container self.%s" % (q, n.lineno, ch[1]))
                        if isinstance(r, ast.Name) and r.id in mut_defaults and isinstance(t, ast.Subscript):
                            bad.append("%s:%d store into mutable default argument %s" % (q, n.lineno, r.id))
            if isinstance(n, ast.Call) and isinstance(n.func, ast.Attribute) and n.func.attr in MUTATORS:
                r = root(n.func.value)
                ch = _attr_chain(n.func.value)
                if isinstance(r, ast.Name) and r.id in mod_names and r.id not in local_assigned and r.id not in params:
                    bad.append("%s:%d mutation of module-level %s" % (q, n.lineno, ast.unparse(n.func)[:60]))
                if isinstance(r, ast.Name) and (r.id in index.classes or r.id == "cls") and len(ch) >= 2:
                    bad.append("%s:%d mutation of class-level %s" % (q, n.lineno, ast.unparse(n.func)[:60]))
                if len(ch) == 2 and ch[0] == "self" and ch[1] in cls_names:
                    bad.append("%s:%d mutation of class-level container self.%s" % (q, n.lineno, ch[1]))
                if isinstance(r, ast.Name) and r.id in mut_defaults and len(ch) == 1:
                    bad.append("%s:%d mutation of mutable default argument %s" % (q, n.lineno, r.id))
            if isinstance(n, ast.Call) and isinstance(n.func, ast.Name) and n.func.id == "exec":
                if q.endswith("Options.load_options_file"):
                    # the exec loop precedes the eval loop in the same call
                    body = fi.node.body
                    ex = [k for k, st in enumerate(body) if any(isinstance(m, ast.Call) and isinstance(m.func, ast.Name) and m.func.id == "exec" for m in ast.walk(st))]
                    ev = [k for k, st in enumerate(body) if any(isinstance(m, ast.Call) and isinstance(m.func, ast.Name) and m.func.id == "eval" for m in ast.walk(st))]
                    exec_ok = bool(ex) and bool(ev) and max(ex) < min(ev)
                    if not exec_ok:
                        bad.append("%s:%d exec into module globals is not followed by the evals that read it" % (q, n.lineno))
                else:
                    bad.append("%s:%d exec" % (q, n.lineno))
    return [{"name": "scan::global_state::no_module_or_class_level_writes", "kind": "frame", "top": True, "result": "unsat" if not bad else "sat", "secs": 0.0,
             "model": {"writes": bad[:12], "options_exec_then_eval": exec_ok}}]


def entropy_sources(index, registry):
    """No wall-clock, OS entropy, object identity / hash order or unseeded generator feeds the computation: such calls appear
    only in the timer utility."""
    bad, sites = [], []
    for q, fi in _lib_funcs(index):
        for n in ast.walk(fi.node):
            if isinstance(n, ast.Call):
                ch = _attr_chain(n.func)
                hit = None
                if ch[:1] == ["time"] or (ch and ch[-1] in ("urandom", "uuid4", "uuid1", "getrandbits", "default_rng", "RandomState", "SeedSequence", "perf_counter", "time_ns", "now")):
                    hit = ".".join(ch)
                if isinstance(n.func, ast.Name) and n.func.id in ("id", "hash"):
                    hit = n.func.id
                if hit:
                    sites.append("%s:%d %s" % (q, n.lineno, hit))
                    if ".timer." not in q and ".Timer." not in q:
                        bad.append("%s:%d %s" % (q, n.lineno, hit))
    return [{"name": "scan::entropy::only_the_timer_reads_the_clock", "kind": "effects", "top": True, "result": "unsat" if not bad else "sat", "secs": 0.0,
             "model": {"sites": sites[:12], "outside_timer": bad[:12]}}]


# ---------------------------------------------------------------------------------------------------------------------
# C20: structure of the option loader and of the constructor's handling of caller-owned objects (syntactic obligations;
# the loader itself - exec / eval / configparser / dict subclass - is outside the verified fragment)
# ---------------------------------------------------------------------------------------------------------------------
def options_structure(index, registry):
    O = "pybads.bads.options.Options."
    out = []

    def ob(name, ok, model=None):
        out.append({"name": "scan::options::" + name, "kind": "structure", "top": True, "result": "unsat" if ok else "sat", "secs": 0.0, "model": model or {}})

    fi = index.find(O + "load_options_file")
    ok, stores = fi is not None, []
    if fi is not None:
        # every store self[key] = ... sits under the guard `key not in self.get("useroptions")`
        def walk(node, guarded):
            for ch in ast.iter_child_nodes(node):
                g = guarded
                if isinstance(ch, ast.If) and "key not in self.get('useroptions')" in ast.unparse(ch.test):
                    for b in ch.body:
                        walk_stmt(b, True)
                    for b in ch.orelse:
                        walk_stmt(b, guarded)
                    continue
                walk_stmt(ch, g)

        def walk_stmt(st, guarded):
            if isinstance(st, (ast.Assign, ast.AugAssign)):
                for t in (st.targets if isinstance(st, ast.Assign) else [st.target]):
                    if isinstance(t, ast.Subscript) and isinstance(t.value, ast.Name) and t.value.id == "self":
                        stores.append((st.lineno, guarded))
            walk(st, guarded)

        walk(fi.node, False)
        ok = bool(stores) and all(g for _, g in stores)
    ob("defaults_never_overwrite_user_options", ok, {"stores": stores})
    fi = index.find(O + "__init__")
    ok = False
    if fi is not None:
        src = [ast.unparse(s) for s in fi.node.body]
        flat = "\n".join(src)
        ok = "self.update(user_options)" in flat and "self['useroptions'].update(user_options.keys())" in flat and flat.index("self.load_options_file(") < flat.index("self.update(user_options)")
    ob("user_options_applied_and_recorded_as_protected", ok)
    fi = index.find(O + "validate_option_names")
    ok = False
    if fi is not None:
        for n in ast.walk(fi.node):
            if isinstance(n, ast.For) and "self.keys()" in ast.unparse(n.iter):
                for m in ast.walk(n):
                    if isinstance(m, ast.If) and "key not in file_option_names" in ast.unparse(m.test) and any(isinstance(x, ast.Raise) and "ValueError" in ast.unparse(x) for x in m.body):
                        ok = True
    ob("unknown_option_name_raises_ValueError", ok)
    fi = index.find("pybads.bads.bads.BADS.__init__")
    ok = False
    if fi is not None:
        flat = ast.unparse(fi.node)
        i1, i2, i3 = flat.find("Options(basic_path"), flat.find("self.options.load_options_file(advanced_path"), flat.find("self.options.validate_option_names([basic_path, advanced_path])")
        ok = 0 <= i1 < i2 < i3 and "user_options=options" in flat
    ob("constructor_loads_user_options_then_advanced_file_then_validates", ok)
    # caller-owned arrays: no in-place store through a parameter that may still alias the caller's object
    bad = []
    for q in ("pybads.bads.bads.BADS.__init__", "pybads.bads.bads.BADS._bounds_check_", "pybads.variable_transformer.variables_transformer.VariableTransformer.__init__"):
        fi = index.find(q)
        if fi is None:
            bad.append(q + " not found")
            continue
        params = {a.arg for a in fi.node.args.args} - {"self"}
        fresh = set()

        def is_fresh(e):
            if isinstance(e, ast.BinOp):
                return True
            if isinstance(e, ast.Call):
                f = ast.unparse(e.func)
                return f.endswith(".copy") or f in ("np.copy", "np.maximum", "np.minimum", "np.full", "np.ones", "np.zeros", "np.array", "np.vstack", "np.concatenate", "np.random.uniform", "np.empty")
            return False

        for st in ast.walk(fi.node):
            if isinstance(st, ast.Assign):
                for t in st.targets:
                    if isinstance(t, ast.Name) and t.id in params and is_fresh(st.value):
                        fresh.add((t.id, st.lineno))
        for st in ast.walk(fi.node):
            if isinstance(st, (ast.Assign, ast.AugAssign)):
                for t in (st.targets if isinstance(st, ast.Assign) else [st.target]):
                    r = t
                    while isinstance(r, (ast.Subscript, ast.Attribute)):
                        r = r.value
                    if isinstance(t, ast.Subscript) and isinstance(r, ast.Name) and r.id in params:
                        if not any(nm == r.id and ln < st.lineno for nm, ln in fresh):
                            bad.append("%s:%d in-place store into parameter %s" % (q, st.lineno, r.id))
                    if isinstance(st, ast.AugAssign) and isinstance(t, ast.Name) and t.id in params and not any(nm == t.id and ln < st.lineno for nm, ln in fresh):
                        bad.append("%s:%d augmented assignment to parameter %s" % (q, st.lineno, t.id))
    ob("caller_arrays_never_stored_into", not bad, {"stores": bad[:8]})
    return out


# ---------------------------------------------------------------------------------------------------------------------
# C12: support for the assumed clause `nan_tail` (unused log rows never equal a point): every allocation / growth of the log's
# value arrays fills the new rows with NaN
# ---------------------------------------------------------------------------------------------------------------------
def log_rows_filled_with_nan(index, registry):
    FLQ = "pybads.function_logger.function_logger.FunctionLogger."
    watched = {"X", "X_orig", "Y", "Y_orig", "S"}
    bad, seen = [], 0

    def is_nan(e):
        return ast.unparse(e) in ("np.nan", "numpy.nan", "float('nan')")

    def nan_full(e):
        return isinstance(e, ast.Call) and ast.unparse(e.func) == "np.full" and len(e.args) >= 2 and is_nan(e.args[1])

    for fn in ("__init__", "_expand_arrays"):
        fi = index.find(FLQ + fn)
        if fi is None:
            bad.append(fn + " not found")
            continue
        for n in ast.walk(fi.node):
            if isinstance(n, ast.Assign) and len(n.targets) == 1 and isinstance(n.targets[0], ast.Attribute) and isinstance(n.targets[0].value, ast.Name) \
                    and n.targets[0].value.id == "self" and n.targets[0].attr in watched:
                seen += 1
                v = n.value
                ok = nan_full(v)
                if isinstance(v, ast.Call) and ast.unparse(v.func) in ("np.append", "np.concatenate", "np.vstack"):
                    parts = v.args[1:2] if ast.unparse(v.func) == "np.append" else (v.args[0].elts[1:] if v.args and isinstance(v.args[0], (ast.Tuple, ast.List)) else [])
                    ok = bool(parts) and all(nan_full(p_) for p_ in parts)
                if isinstance(v, ast.Call) and ast.unparse(v.func) == "np.pad":
                    ok = any(k.arg == "constant_values" and is_nan(k.value) for k in v.keywords)
                if not ok:
                    bad.append("%s:%d self.%s = %s" % (fn, n.lineno, n.targets[0].attr, ast.unparse(v)[:70]))
    return [{"name": "scan::logger::new_log_rows_are_filled_with_nan", "kind": "structure", "top": False, "result": "unsat" if (not bad and seen >= 8) else "sat", "secs": 0.0,
             "model": {"allocations_seen": seen, "not_nan_filled": bad[:6]}}]
