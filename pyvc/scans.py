"""Syntactic coverage obligations (pure Python over the freshly parsed AST)."""
import ast


def _calls(index):
    for q, fi in index.funcs.items():
        for n in ast.walk(fi.node):
            if isinstance(n, ast.Call):
                yield q, fi, n


def target_call_sites(index, registry):
    """The user target is invoked at exactly one site: FunctionLogger.__call__ (self.fun(x_orig))."""
    sites = []
    for q, fi, n in _calls(index):
        f = n.func
        if isinstance(f, ast.Attribute) and f.attr == "fun" and not (isinstance(f.value, ast.Name) and f.value.id in ("np",)):
            sites.append("%s:%d" % (q, n.lineno))
    ok = len(sites) == 1 and sites[0].startswith("pybads.function_logger.function_logger.FunctionLogger.__call__")
    return [{"name": "scan::target_called_only_by_FunctionLogger.__call__", "kind": "coverage", "top": True, "result": "unsat" if ok else "sat",
             "secs": 0.0, "detail": sites, "model": {"call_sites": sites}}]


def logger_call_sites(index, registry, expected_functions):
    """Every call of the logger object happens inside a function that is under contract for the property."""
    sites = []
    for q, fi, n in _calls(index):
        f = n.func
        if (isinstance(f, ast.Attribute) and f.attr == "function_logger") or (isinstance(f, ast.Name) and f.id in ("function_logger", "func_logger")):
            sites.append(q)
    extra = sorted(set(sites) - set(expected_functions))
    return [{"name": "scan::logger_called_only_from_contracted_functions", "kind": "coverage", "top": False, "result": "unsat" if not extra else "sat",
             "secs": 0.0, "detail": sorted(set(sites)), "model": {"uncontracted_callers": extra}}]


def deepcopy_on_store(index, registry):
    """Structural obligation: the containers store deep copies (IterationHistory.__setitem__/record, OptimizeResult.__setitem__)."""
    out = []
    for qual in ("pybads.utils.iteration_history.IterationHistory.__setitem__", "pybads.utils.iteration_history.IterationHistory.record",
                 "pybads.bads.optimize_result.OptimizeResult.__setitem__"):
        fi = index.find(qual)
        ok = False
        if fi is not None:
            for n in ast.walk(fi.node):
                # the stored value is the result of copy.deepcopy(<parameter>)
                if isinstance(n, ast.Call) and isinstance(n.func, ast.Attribute) and n.func.attr == "deepcopy" and n.args and isinstance(n.args[0], ast.Name) and n.args[0].id in ("val", "value"):
                    ok = True
        out.append({"name": "scan::deepcopy_on_store::" + qual.split(".")[-2] + "." + qual.split(".")[-1], "kind": "coverage", "top": True, "result": "unsat" if ok else "sat", "secs": 0.0,
                    "model": {"function": qual, "found": fi is not None}})
    return out


def lean_lemma(index, registry):
    """The mathematical half of C14: Lean 4 + Mathlib checks lemmas/Ltmads.lean (about 10 s warm, a few minutes cold)."""
    import os
    import subprocess
    import time
    src = os.path.join(os.path.dirname(os.path.dirname(os.path.abspath(__file__))), "lemmas", "Ltmads.lean")
    t0 = time.time()
    try:
        p = subprocess.run(["lake", "env", "lean", src], cwd="/opt/veriftools/mathlib4", capture_output=True, text=True, timeout=1500)
        out = (p.stdout + p.stderr)
        ok = p.returncode == 0 and "error" not in out and "sorry" not in out
        res = "unsat" if ok else "sat"
    except Exception as ex:  # noqa: BLE001
        out, res = repr(ex), "unknown"
    return [{"name": "lemma::Ltmads.lean::det_ltmads_ne_zero+pos_span_of_basis", "kind": "lemma", "top": True, "result": res, "secs": round(time.time() - t0, 1),
             "backend": "lean4+mathlib", "reason": out[-400:] if res != "unsat" else None, "model": {"lean_output": out[-400:]}}]
