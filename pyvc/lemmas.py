"""Scalar nonlinear lemmas: each is proved once per run as a stand-alone quantifier-free query (z3 nlsat) and may then
be instantiated explicitly inside contracts (`lemma("name", args...)`), so that the big queries stay linear."""
import z3

R = z3.Real


def _div_cancel(g, m, t):
    return z3.Implies(g != 0, g * ((t - m) / g) + m == t)


def _affine_mono(g, m, a, b):
    return z3.Implies(z3.And(g > 0, a < b), g * a + m < g * b + m)


def _div_mono(g, m, a, b):
    return z3.Implies(z3.And(g > 0, a < b), (a - m) / g < (b - m) / g)


def _unit(p, q):
    return z3.Implies(p < q, z3.And((p - (p + q) / 2) / ((q - p) / 2) == -1, (q - (p + q) / 2) / ((q - p) / 2) == 1))


def _half(p, q):
    return z3.Implies(p < q, (q - p) / 2 > 0)


LEMMAS = {"div_cancel": (_div_cancel, 3), "affine_mono": (_affine_mono, 4), "div_mono": (_div_mono, 4), "unit": (_unit, 2), "half_pos": (_half, 2)}


def prove_all(timeout_ms=20000):
    out = []
    for name, (f, n) in LEMMAS.items():
        vs = [R("lem_%s_%d" % (name, i)) for i in range(n)]
        s = z3.Solver()
        s.set("timeout", timeout_ms)
        s.add(z3.Not(f(*vs)))
        r = s.check()
        out.append({"name": "lemma::" + name, "kind": "lemma", "top": False, "result": str(r), "secs": 0.0, "model": None})
    return out


def instance(name, args):
    f, n = LEMMAS[name]
    assert len(args) == n, "lemma %s takes %d arguments" % (name, n)
    return f(*args)
