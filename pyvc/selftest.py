"""Engine self-test run by setup: a tiny function with a known-good and a known-bad contract."""
import ast, os, sys
sys.path.insert(0, os.path.dirname(os.path.dirname(os.path.abspath(__file__))))
from pyvc.index import RepoIndex, FuncInfo
from pyvc.contracts import Contract
from pyvc.verify import verify_function
from pyvc.solve import discharge

SRC = '''
def clamp_sum(x, lo, hi, n):
    s = 0
    i = 0
    while i < n:
        s = s + 1
        i += 1
    y = x
    if y < lo:
        y = lo
    if y > hi:
        y = hi
    return y, s
'''


def run(ens):
    idx = RepoIndex()
    node = ast.parse(SRC).body[0]
    fi = FuncInfo("selftest.clamp_sum", node, "selftest", None, "selftest.py", SRC)
    idx.funcs[fi.qual] = fi
    c = Contract(fi.qual)
    c.ints("n", "x", "lo", "hi")
    c.req("ord", "lo <= hi and n >= 0")
    c.loop(0, invariants={"s_is_i": "s == i and i <= n"}, variant=["n - i"])
    for k, v in ens.items():
        c.ens(k, v)
    eng, obs, cx, t = verify_function(idx, {fi.qual: c}, fi.qual)
    res = discharge(obs, cx.facts, timeout_ms=10000)
    return {o.name.split("::", 1)[1]: r["result"] for o, r in zip(obs, res)}


good = run({"in_range": "lo <= result[0] and result[0] <= hi", "count": "result[1] == n"})
assert all(v == "unsat" for v in good.values()), good
bad = run({"wrong": "result[0] == x", "count": "result[1] == n + 1"})
assert bad["ensures::wrong"] == "sat" and bad["ensures::count"] == "sat", bad
print("pyvc selftest ok:", len(good), "obligations discharged; 2 wrong clauses refuted")
