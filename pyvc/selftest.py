"""Engine self-test run by setup: a tiny function with a known-good and a known-bad contract."""
import ast, os, sys
sys.path.insert(0, os.path.dirname(os.path.dirname(os.path.abspath(__file__))))
from pyvc.index import RepoIndex, FuncInfo
from pyvc.contracts import Contract
from pyvc.verify import verify_function
from pyvc.solve import discharge

SRC = '''
def clamp_sum(x, lo, hi, n):
    s = 0
    i = 0
    while i < n:
        s = s + 1
        i += 1
    y = x
    if y < lo:
        y = lo
    if y > hi:
        y = hi
    return y, s
'''


def run(ens):
    idx = RepoIndex()
    node = ast.parse(SRC).body[0]
    fi = FuncInfo("selftest.clamp_sum", node, "selftest", None, "selftest.py", SRC)
    idx.funcs[fi.qual] = fi
    c = Contract(fi.qual)
    c.ints("n", "x", "lo", "hi")
    c.req("ord", "lo <= hi and n >= 0")
    c.loop(0, invariants={"s_is_i": "s == i and i <= n"}, variant=["n - i"])
    for k, v in ens.items():
        c.ens(k, v)
    eng, obs, cx, t = verify_function(idx, {fi.qual: c}, fi.qual)
    res = discharge(obs, cx.facts, timeout_ms=10000)
    return {o.name.split("::", 1)[1]: r["result"] for o, r in zip(obs, res)}


good = run({"in_range": "lo <= result[0] and result[0] <= hi", "count": "result[1] == n"})
assert all(v == "unsat" for v in good.values()), good
bad = run({"wrong": "result[0] == x", "count": "result[1] == n + 1"})
assert bad["ensures::wrong"] == "sat" and bad["ensures::count"] == "sat", bad


def run_src(src, name, build):
    idx = RepoIndex()
    node = ast.parse(src).body[0]
    fi = FuncInfo("selftest." + name, node, "selftest", None, "selftest.py", src)
    idx.funcs[fi.qual] = fi
    c = Contract(fi.qual)
    build(c)
    eng, obs, cx, t = verify_function(idx, {fi.qual: c}, fi.qual)
    res = discharge(obs, cx.facts, timeout_ms=10000)
    return {o.name.split("::", 1)[1]: r["result"] for o, r in zip(obs, res)}


# trap 1: a loop invariant that only holds if the loop's write set is NOT havocked at the head must be refuted
LOOP = """
def count(n):
    k = 0
    for i in range(0, n):
        k = k + 1
    return k
"""


def b1(c):
    c.ints("n")
    c.req("n", "n >= 0")
    c.loop(0, invariants={"stale": "k == 0"})
    c.ens("zero", "result == 0")


r1 = run_src(LOOP, "count", b1)
assert r1["loop#0::inv-preserved::stale"] == "sat", r1

# trap 2: exceptions - a caught raise does not escape, the handler's effect is seen, a wrong clause is refuted
EXC = """
def guarded(x):
    try:
        if x < 0:
            raise ValueError("neg")
        y = x
    except ValueError:
        y = 0
    return y
"""


def b2(c):
    c.ints("x")
    c.check_raises = True
    c.ens("nonneg", "result >= 0")
    c.ens("wrong", "result == x")


r2 = run_src(EXC, "guarded", b2)
assert r2["ensures::nonneg"] == "unsat" and r2["ensures::wrong"] == "sat" and not any(k.startswith("no-raise") for k in r2), r2

# trap 3: opt-in definedness - reading a local bound on one branch only is an UnboundLocalError exit that cannot be proved away
UNB = """
def maybe(x):
    if x > 0:
        r = 1
    return r
"""


def b3(c):
    c.ints("x")
    c.check_raises = True
    c.unbound_checks = True


r3 = run_src(UNB, "maybe", b3)
assert any(k.startswith("no-raise::UnboundLocalError") and v == "sat" for k, v in r3.items()), r3


def b3ok(c):
    b3(c)
    c.req("pos", "x > 0")


r3b = run_src(UNB, "maybe", b3ok)
assert all(v == "unsat" for k, v in r3b.items() if k.startswith("no-raise")), r3b
print("pyvc selftest ok:", len(good), "obligations discharged; 2 wrong clauses refuted; 3 unsoundness traps behave")
