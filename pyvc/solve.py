"""Discharge obligations: relevance-filtered facts, SMT-LIB serialisation,
parallel z3 workers (and cvc5 / z3-4.8 cross-check in the thorough tier)."""
import os
import subprocess
import tempfile
import time
from concurrent.futures import ProcessPoolExecutor

import z3

from . import npmodel
from .vals import ctx


def _syms(e, cache):
    k = e.get_id()
    if k in cache:
        return cache[k]
    out = set()
    stack = [e]
    seen = set()
    while stack:
        x = stack.pop()
        xid = x.get_id()
        if xid in seen:
            continue
        seen.add(xid)
        if z3.is_quantifier(x):
            stack.append(x.body())
            for i in range(x.num_patterns()):
                stack.append(x.pattern(i))
            continue
        if z3.is_app(x):
            d = x.decl()
            if d.kind() == z3.Z3_OP_UNINTERPRETED:
                out.add(d.name())
            stack.extend(x.children())
    cache[k] = out
    return out


def relevant_facts(facts, seeds, cache, hops=None):
    defines = ctx().defines
    fs = [(f, _syms(f, cache), defines.get(f.get_id())) for f in facts]
    cur = set(seeds)
    chosen = [False] * len(fs)
    changed = True
    rounds = 0
    while changed:
        if hops is not None and rounds >= hops:
            break
        rounds += 1
        frozen = set(cur)
        changed = False
        for i, (f, s, d) in enumerate(fs):
            if not chosen[i] and ((d & frozen) if d else (s & frozen)):
                chosen[i] = True
                if not s <= cur:
                    cur |= s
                changed = True
    return [f for (f, _, _), c in zip(fs, chosen) if c], cur


def to_smt2(ob, facts, cache, extra_axioms=True, hops=None):
    seeds = _syms(ob.hyp, cache) | _syms(ob.goal, cache)
    if getattr(ob.clause, "from_path_condition_only", False):
        # the clause follows from the statement contracts / lemmas already on the path (part of the hypothesis): no axiom
        # instance is handed to the solver (dropping facts is always sound; it keeps this query small and stable)
        rel, cur = [], set(seeds)
    else:
        rel, cur = relevant_facts(facts[: getattr(ob, "stamp", len(facts))], seeds, cache, hops)
    s = z3.Solver()
    for f in rel:
        s.add(f)
    if extra_axioms:
        if "pw" in cur:
            for a in npmodel.pw_axioms():
                s.add(a)
        if "log" in cur or "exp" in cur:
            for a in npmodel.explog_axioms():
                s.add(a)
        if "rnd" in cur:
            from .vals import rnd_axioms
            for a in rnd_axioms():
                s.add(a)
    s.add(ob.hyp)
    s.add(z3.Not(ob.goal))
    ob.nfacts = len(rel)
    return s.to_smt2()


def _check_z3(args):
    smt2, timeout_ms, seed, want_model = args
    t0 = time.time()
    try:
        has_q = "(forall" in smt2 or "(exists" in smt2
        model = None
        reason = None

        zctx = z3.Context()  # fresh context per query: results do not depend on what this worker solved before

        def run(opts, to):
            s = z3.Solver(ctx=zctx)
            # deterministic budget: z3 resource units (about 1.1e6 per second on this machine) - verdicts do not depend on
            # machine load; the wall-clock timeout is only a backstop at 4x the nominal time
            s.set("rlimit", int(to) * 1100)
            s.set("timeout", int(to) * 4)
            s.set("random_seed", seed)
            for k, v in opts.items():
                s.set(k, v)
            s.from_string(smt2)
            return s, s.check()

        if not has_q:
            s, r = run({}, timeout_ms)
            res = str(r)
            if r == z3.unknown:
                reason = s.reason_unknown()
        else:
            # Quantified hypotheses: a small portfolio.  'unsat' from any configuration is a proof.  When none proves the
            # goal and E-matching saturates without a refutation (z3: unknown / "incomplete quantifiers"), the proof has
            # failed and z3's candidate model is the counter-model (as in Boogie/Dafny): reported as sat, flagged.
            # stage 1: E-matching only (no MBQI), full budget.  stage 2: default configuration, full budget.
            # stage 3 (only to classify a failed proof): auto_config off + no MBQI answers "incomplete quantifiers" at once
            # when instantiation saturates.  A candidate counter-model ("sat") is reported only when some stage reports
            # saturation (never on mere timeouts) and no stage proves the goal.
            res = "unknown"
            incomplete = False
            s, r = run({"smt.mbqi": False}, timeout_ms)
            if r == z3.unsat:
                res = "unsat"
            elif r == z3.sat:
                res = "sat"
            else:
                incomplete = "incomplete" in s.reason_unknown()
                s2, r2 = run({}, timeout_ms)
                if r2 == z3.unsat:
                    res = "unsat"
                elif r2 == z3.sat:
                    res, s = "sat", s2
                else:
                    s3, r3 = run({"auto_config": False, "smt.mbqi": False}, max(3000, timeout_ms // 4))
                    if r3 == z3.unsat:
                        res = "unsat"
                    elif r3 == z3.sat or (r3 == z3.unknown and "incomplete" in s3.reason_unknown()) or incomplete:
                        res = "sat"
                        if not incomplete or r3 != z3.unknown or "incomplete" in s3.reason_unknown():
                            s = s3 if r3 != z3.unsat else s
                        reason = "candidate counter-model (quantifier instantiation saturated without refutation)"
                    else:
                        reason = s2.reason_unknown()
        if res == "sat" and want_model:
            try:
                m = s.model()
                model = {}
                for d in m.decls():
                    try:
                        model[d.name()] = str(m[d])[:400]
                    except Exception:
                        pass
            except Exception:
                model = None
        return res, model, reason, time.time() - t0
    except Exception as ex:  # solver crash: undecided, never a verdict
        return "error", None, repr(ex)[:300], time.time() - t0


def _check_cli(args):
    smt2, cmd, timeout_s = args
    t0 = time.time()
    with tempfile.NamedTemporaryFile("w", suffix=".smt2", delete=False, dir=os.environ.get("PYVC_TMP", None)) as f:
        f.write("(set-logic ALL)\n" if "cvc5" in cmd[0] else "")
        f.write(smt2)
        path = f.name
    try:
        p = subprocess.run(cmd + [path], capture_output=True, text=True, timeout=timeout_s)
        out = p.stdout.strip().splitlines()
        res = out[0].strip() if out else "error"
        if res not in ("sat", "unsat", "unknown"):
            res = "error"
        return res, None, (p.stderr or "")[:200], time.time() - t0
    except subprocess.TimeoutExpired:
        return "unknown", None, "timeout", time.time() - t0
    finally:
        os.unlink(path)


_POOL = None


def pool(n=None):
    global _POOL
    if _POOL is None:
        _POOL = ProcessPoolExecutor(max_workers=n or int(os.environ.get("PYVC_JOBS", "12")))
    return _POOL


def discharge(obligations, facts, timeout_ms=20000, seed=0, second=None, jobs=None):
    """Returns list of dict(result, model, reason, secs, backend) aligned with obligations."""
    cache = {}
    ex = pool(jobs)
    # first pass: only facts within two symbol-hops of the obligation (dropping facts is sound); second pass: full cone
    texts = [to_smt2(ob, facts, cache, hops=2) for ob in obligations]
    res = list(ex.map(_check_z3, [(t, min(timeout_ms, 8000), seed, True) for t in texts]))
    redo = [i for i, r in enumerate(res) if r[0] != "unsat"]
    if redo:
        full = {i: to_smt2(obligations[i], facts, cache) for i in redo}
        res2 = list(ex.map(_check_z3, [(full[i], timeout_ms, seed, True) for i in redo]))
        for i, r in zip(redo, res2):
            res[i] = r
            texts[i] = full[i]
    out = []
    for ob, t, r in zip(obligations, texts, res):
        f = getattr(ob, "forced", None)
        if f:
            r = (f[0], None, f[1], 0.0)
        out.append({"result": r[0], "model": r[1], "reason": r[2], "secs": round(r[3], 3), "backend": "z3-%s" % z3.get_version_string(), "smt_bytes": len(t), "nfacts": ob.nfacts,
                    "_smt2": t if r[0] not in ("unsat",) else None})
    if second:
        t2 = min(timeout_ms, 15000)
        cmds = {"cvc5": (["/usr/bin/cvc5", "--tlimit=%d" % t2], t2 / 1000 + 5), "z3-4.8": (["/usr/bin/z3", "-T:%d" % (t2 // 1000)], t2 / 1000 + 5)}
        import random as _r
        pick = list(range(len(texts)))
        _r.Random(seed).shuffle(pick)
        pick = sorted(pick[:40])  # a seeded sample of the obligations is re-discharged by the second solver
        for name in second:
            cmd, to = cmds[name]
            r2 = list(ex.map(_check_cli, [(texts[i], cmd, to) for i in pick]))
            for i, r in zip(pick, r2):
                out[i].setdefault("second", {})[name] = {"result": r[0], "secs": round(r[3], 3)}
    return out


def check_sat(formulas, facts, timeout_ms=10000):
    """Satisfiability of pc (vacuity / reachability guard). Returns list of 'sat'/'unsat'/'unknown'."""
    cache = {}
    texts = []
    for f in formulas:
        seeds = _syms(f, cache)
        rel, cur = relevant_facts(facts, seeds, cache)
        s = z3.Solver()
        for r in rel:
            s.add(r)
        if "pw" in cur:
            for a in npmodel.pw_axioms():
                s.add(a)
        s.add(f)
        texts.append(s.to_smt2())
    ex = pool()
    res = list(ex.map(_check_z3, [(t, timeout_ms, 0, False) for t in texts]))
    return [r[0] for r in res]


def retry_alone(texts, timeout_ms, seed):
    """Second attempt for undecided baseline obligations: few at a time, generous budget, default configuration first."""
    ex = pool()
    return list(ex.map(_check_z3, [(t, timeout_ms, seed + 17, True) for t in texts]))
