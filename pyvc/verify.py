"""Function-level verification driver: builds obligations for one function
against its sidecar contract."""
import ast
import time
import z3

from . import frames, npmodel
from .contracts import REGISTRY
from .symexec import Engine, State, Exit, Obligation, SpecCtx, Undecided, is_heap, exc_matches
from .vals import Ctx, set_ctx, ctx, Val, N, Arr, n_fresh, arr_fresh, n_eq, val_ite, _real
from .calls import spec_state


class VEngine(Engine):
    def __init__(self, index, registry, models=None):
        super().__init__(index, registry)
        self.frame_cls = []
        self.effects = []
        self.models = models or {}
        self.kinds = {}
        self.entry_state = None

    # hooks used by calls/npmodel -------------------------------------------
    def effect(self, name, node):
        self.effects.append((name, self.where(node) if node is not None else None))

    def effects_of_contract(self, c, node):
        for eff in getattr(c, "effects", ()):
            self.effect(eff, node)

    def external_effects(self, name, base, node):
        if name in ("fit", "update", "sample", "random_base2", "random"):
            self.effect("draws_rng", node)

    def want_inline(self, fi):
        from .calls import INLINE

        return fi.name in INLINE and fi.qual not in self.registry

    def callable_spec(self, fv):
        ref = fv.ref or ""
        for suffix, h in self.models.items():
            if ref.endswith(suffix):
                return h
        return None

    def lazy_arr(self, name):
        """Array facet of an untyped (poly) symbol whose path got an array type later (e.g. from a callee's contract)."""
        spec = self.type_spec(name)
        if not spec or not spec.get("arrspec"):
            return None
        nd, shp, dt, ext = spec["arrspec"]
        try:
            shape = tuple(self.spec_shape(s) for s in shp)
        except Undecided:
            return None
        return arr_fresh(name + "!a", nd, shape, dt, ext)

    def kind_is(self, v, kind):
        key = (v.poly, kind)
        if key not in self.kinds:
            self.kinds[key] = z3.Bool("%s!is_%s" % (v.poly, kind))
        return self.kinds[key]

    def safety_item(self, base, st, node):
        pass

    def lookup_state_has_key(self, ref, key):
        """'key in d' for a constant key: a boolean of the dictionary's state (named by its path), so that contracts can say
        which keys are present (haskey(d, 'k'))."""
        return z3.Bool("%s.#has[%r]" % (ref, key))

    def localise_spec(self, spec, b, st):
        if spec.get("arrspec"):
            nd, shp, dt, ext = spec["arrspec"]
            s2 = spec_state(self, st, b)
            shape = []
            for s in shp:
                if isinstance(s, str):
                    old = self.spec
                    self.spec = None
                    try:
                        shape.append(self.as_int(self.ev(ast.parse(s, mode="eval").body, s2)))
                    finally:
                        self.spec = old
                else:
                    shape.append(s)
            out = dict(spec)
            out["arrspec"] = (nd, tuple(shape), dt, ext)
            return out
        return spec

    def build_from_spec(self, spec, name, st):
        if spec.get("tuple"):
            return Val.of_tup([self.build_from_spec(s, "%s!%d" % (name, i), st) for i, s in enumerate(spec["tuple"])])
        if spec.get("bool"):
            return Val(boo=z3.Bool(name))
        if spec.get("arrspec"):
            nd, shp, dt, ext = spec["arrspec"]
            shape = []
            for s in shp:
                if isinstance(s, str):
                    old = self.spec
                    self.spec = SpecCtx(pre=st, polarity=0, lets={}, contract=None)
                    try:
                        shape.append(self.as_int(self.ev(ast.parse(s, mode="eval").body, st)))
                    finally:
                        self.spec = old
                elif s is None:
                    d = z3.Int(ctx().fresh(name + "!dim"))
                    ctx().add_fact(d >= 0)
                    shape.append(d)
                else:
                    shape.append(s)
            v = Val(arr=arr_fresh(name, nd, tuple(shape), dt, ext))
            if spec.get("maybe_none"):
                v.none = z3.Bool(name + "!none")
            return v
        if spec.get("sort"):
            v = Val(num=n_fresh(name, spec["sort"], spec.get("ext", False)))
            if spec.get("maybe_none"):
                v.none = z3.Bool(name + "!none")
            return v
        if spec.get("none"):
            return Val.of_none()
        if spec.get("param"):
            return st.env[spec["param"]]  # the callee returns this argument itself (same reference)
        if spec.get("obj"):
            for field, fspec in (spec.get("fields") or {}).items():
                from .contracts import norm_path
                ctx().types[norm_path("X." + field).replace("X.", "$" + name + ".", 1)] = fspec
            return Val(ref="$" + name, py=("instance", spec["obj"]))
        return Val(poly=name, ref="$" + name)

    def val_equal(self, a, b):
        if a.arr is not None and b.arr is not None:
            aa, ba = a.arr, b.arr
            if aa.ndim != ba.ndim:
                return z3.BoolVal(False)
            shp = z3.And(*[x == y for x, y in zip(aa.shape, ba.shape)]) if aa.ndim else z3.BoolVal(True)
            pol = self.spec.polarity if self.spec is not None else 0
            if pol > 0:
                vs = [z3.Int(ctx().fresh("sk_eq")) for _ in range(aa.ndim)]
                body = self._elem_eq(aa, ba, vs)
                return z3.And(shp, z3.Implies(aa.in_range(*vs), body))
            vs = [z3.Int(ctx().fresh("q_eq")) for _ in range(aa.ndim)]
            ctx().binders.append(vs)
            try:
                body = self._elem_eq(aa, ba, vs)
            finally:
                ctx().binders.pop()
            return z3.And(shp, z3.ForAll(vs, z3.Implies(aa.in_range(*vs), body))) if vs else z3.And(shp, body)
        if a.tup is not None and b.tup is not None:
            if len(a.tup) != len(b.tup):
                return z3.BoolVal(False)
            return z3.And(*[self.val_equal(x, y) for x, y in zip(a.tup, b.tup)])
        parts = []
        na, nb = a.none_term(), b.none_term()
        parts.append(na == nb)
        if (a.num is not None or a.poly) and (b.num is not None or b.poly) and not (a.boo is not None and a.num is None):
            x, y = a.get_num(), b.get_num()
            parts.append(z3.Implies(z3.Not(na), z3.Or(n_eq(x, y), z3.And(npmodel.n_isnan(x), npmodel.n_isnan(y)))))
        elif a.boo is not None and b.boo is not None:
            parts.append(z3.Implies(z3.Not(na), a.boo == b.boo))
        elif a.s is not None and b.s is not None:
            parts.append(a.s == b.s)
        elif a.ref is not None and b.ref is not None:
            parts.append(z3.BoolVal(a.ref == b.ref))
        elif a.is_static_none() and b.is_static_none():
            pass
        else:
            return z3.BoolVal(False) if not (a.is_static_none() or b.is_static_none()) else (na == nb)
        return z3.And(*parts)

    def _elem_eq(self, aa, ba, vs):
        x, y = aa.elem(*vs), ba.elem(*vs)
        if aa.dtype == "bool":
            return x == y
        return z3.Or(n_eq(x, y), z3.And(npmodel.n_isnan(x), npmodel.n_isnan(y)))

    # ------------------------------------------------------------------
    def verify(self, qual):
        # "qual#variant": one of several contracts (instances, e.g. a fixed dimension) on the same function
        fi = self.index.find(qual.split("#")[0])
        if fi is None:
            raise Undecided("function %s not found in the current source" % qual)
        c = self.registry.get(qual)
        if c is None:
            raise Undecided("no contract for %s" % qual)
        self.variant = qual.split("#")[1] if "#" in qual else None
        self.func = fi
        self.cur_contract = c
        self.frame_cls = [fi.cls]
        self.obligations = []
        self.effects = []
        self.covers = []
        self.call_counts = {}
        self.exit_stack = [[]]
        self.cuts_fired = set()
        self.hooks_fired = set()
        cx = ctx()
        cx.make_arr = self.lazy_arr
        cx.types.update(c.types)
        env = {}
        st = State(z3.BoolVal(True), env)
        self.entry_state = st
        is_method = fi.cls is not None and fi.params and fi.params[0] in ("self", "cls")
        typed_later = []
        for i, p in enumerate(fi.params):
            if i == 0 and is_method:
                env[p] = Val(ref="self", py=("instance", fi.cls))
                continue
            spec = self.type_spec(p)
            if spec is not None and spec.get("arrspec"):
                typed_later.append(p)
                env[p] = Val(poly=p + "!placeholder", ref=p)
                continue
            v = self.make_typed(p, p)
            if v is None:
                v = Val(poly=p, ref=p)
            elif v.ref is None and v.num is None and v.boo is None:
                v.ref = p
            env[p] = v
        self.entry_state = State(st.pc, env)
        for p in typed_later:  # array shapes may mention other parameters
            v = self.make_typed(p, p)
            if v.ref is None:
                v.ref = p
            env[p] = v
        self.entry_state = State(st.pc, dict(env))
        # preconditions
        for cl in c.requires:
            if not self.rel(cl):
                continue
            g = self.eval_clause(cl, st, pre=self.entry_state, polarity=-1)
            st.pc = z3.And(st.pc, g)
        for cl in c.assume:
            g = self.eval_clause(cl, st, pre=self.entry_state, polarity=-1)
            st.pc = z3.And(st.pc, g)
        self.entry_state = State(st.pc, dict(st.env))
        self.covers.append((qual + "::entry-reachable", st.pc))
        out = self.exec_block(fi.node.body, st.copy())
        exits = self.exit_stack.pop()
        self.exit_stack = [[]]
        rets = [(x.st, x.val, x.where) for x in exits if x.kind == "return"]
        if out is not None:
            rets.append((out, Val.of_none(), "%s:end" % fi.path))
        # postconditions at every normal exit (merged)
        if rets:
            acc_st, acc_v = rets[-1][0], rets[-1][1]
            for s2, v2, _ in reversed(rets[:-1]):
                acc_v = val_ite(s2.pc, v2, acc_v)
                acc_st = self.merge_states(s2.pc, s2, acc_st)
            post = acc_st.copy()
            post.env["result"] = acc_v
            self.covers.append((qual + "::normal-exit-reachable", post.pc))
            for cl in c.ensures:
                if not self.rel(cl) or getattr(cl, "assumed", False):
                    continue
                g = self.eval_clause(cl, post, pre=self.entry_state, polarity=1)
                self.oblige("ensures::" + cl.name, post, g, "ensures", cl.top, cl.props, fi.node, cl)
            if c.modifies is not None and c.check_frame:
                self.check_frame(c, fi, post)
        # exceptional exits
        raises = [x for x in exits if x.kind == "raise"]
        if getattr(c, "check_raises", False):
            self.check_raises(c, fi, raises)
        return self.obligations

    def check_frame(self, c, fi, post):
        """Every tracked heap path whose value changed must be covered by the declared modifies."""
        declared = set()
        prefixes = []
        for p in c.modifies:
            kind, key = self.lvalue(ast.parse(p, mode="eval").body, self.entry_state.copy())
            if kind == "heap":
                declared.add(key)
            elif kind == "elem":
                pass
        for p in c.modifies_prefix:
            v = self.ev(ast.parse(p, mode="eval").body, self.entry_state.copy())
            if v.ref is not None:
                prefixes.append(v.ref)
        changed = []
        for k, v in post.env.items():
            if k.startswith("#undef:"):
                continue
            if k.startswith("#ver:"):
                pk = k[5:]
                if pk.startswith("$") or not is_heap(pk):
                    continue
                if not any(pk == d or pk.startswith(p) for p in prefixes for d in [p]) and pk not in declared:
                    changed.append((k, None))
                continue
            if not is_heap(k) or k.startswith("$"):
                continue
            if k in declared or any(k == p or (k.startswith(p) and k[len(p)] in ".[") for p in prefixes):
                continue
            e0 = self.lookup(self.entry_state, k)
            if v is e0:
                continue
            changed.append((k, (v, e0)))
        for k, pair in changed:
            if pair is None:
                goal = z3.BoolVal(False)
            else:
                v, e0 = pair
                old = self.spec
                self.spec = SpecCtx(polarity=1)
                try:
                    goal = self.val_equal(v, e0)
                finally:
                    self.spec = old
            self.oblige("frame::%s" % k, post, goal, "frame", False, (), fi.node)

    def check_raises(self, c, fi, raises):
        RP = tuple(getattr(c, "raise_props", None) or ("C10",))
        RP9 = tuple(getattr(c, "raise_props", None) or ("C10", "C09"))
        for i, x in enumerate(raises):
            for exc_cls, cl in c.exc_classes:
                if x.exc != exc_cls:
                    cond = self.eval_clause(cl, x.st, pre=self.entry_state, polarity=-1)
                    self.oblige("raise::%s@%s::%s" % (x.exc, getattr(x, "tag", "?"), cl.name), x.st, z3.Not(cond), "raises", True, cl.props or RP, fi.node, cl)
            allowed = [rs for rs in c.raises if exc_matches(x.exc, rs.exc) or exc_matches(rs.exc, x.exc) and x.exc in ("Exception",)]
            name = "raise::%s@%s" % (x.exc, getattr(x, "tag", None) or (x.where or "?").split(":")[-1])
            if not allowed or str(getattr(x, "tag", "")).startswith("internal["):
                # undeclared class, or an error raised inside NumPy on an empty reduction: never an intended exit
                self.oblige("no-" + name, x.st, z3.BoolVal(False), "raises", True, RP9 if allowed == [] or not getattr(c, "raise_props", None) else tuple(c.raise_props), fi.node)
                continue
            conds = []
            for rs in allowed:
                if rs.when is not None:
                    conds.append(self.truth(self.ev_spec(rs.when, x.st, pre=self.entry_state, polarity=1)))
                else:
                    conds.append(z3.BoolVal(True))
            self.oblige(name + "::allowed", x.st, z3.Or(*conds), "raises", False, RP9, fi.node)
            for rs in allowed:
                for cl in rs.ensures:
                    g = self.eval_clause(cl, x.st, pre=self.entry_state, polarity=1)
                    w = self.truth(self.ev_spec(rs.when, x.st, pre=self.entry_state, polarity=-1)) if rs.when is not None else z3.BoolVal(True)
                    self.oblige("%s::%s" % (name, cl.name), x.st, z3.Implies(w, g), "raises", cl.top, cl.props or RP, fi.node, cl)
            for cl in c.exc_ensures:
                g = self.eval_clause(cl, x.st, pre=self.entry_state, polarity=1)
                self.oblige("%s::%s" % (name, cl.name), x.st, g, "raises", cl.top, cl.props or RP, fi.node, cl)


def verify_function(index, registry, qual, models=None, pid=None):
    if models is None:
        from contracts.models import MODELS as models
    cx = set_ctx(Ctx())
    eng = VEngine(index, registry, models)
    eng.pid = pid
    t0 = time.time()
    obs = eng.verify(qual)
    return eng, obs, cx, time.time() - t0
