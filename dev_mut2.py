import sys
sys.path.insert(0, '/verif')
from pyvc import contracts as C
from pyvc.check import run_mutants, load_props
reg = C.load_all()
P = load_props()
pid, mid = sys.argv[1], sys.argv[2]
ms=[m for m in P[pid]['mutants'] if m['id']==mid]
r = run_mutants(reg, ms, P[pid].get('models'), 20000, 0, pid=pid, scans=P[pid].get('scans', ()))
import json; print(json.dumps(r, indent=1)[:3000])
