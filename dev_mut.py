import sys
sys.path.insert(0, '/verif')
from pyvc.index import RepoIndex
from pyvc import contracts as C
from pyvc.verify import verify_function
from pyvc.solve import discharge
reg = C.load_all()
def run(q, path, old, new, count=1):
    src = open('/repo/' + path).read()
    assert old in src, old
    msrc = src.replace(old, new, count)
    idx = RepoIndex(overrides={path: msrc})
    q = [k for k in reg if k.endswith(q)][0]
    eng, obs, cx, t = verify_function(idx, reg, q)
    res = discharge(obs, cx.facts, timeout_ms=20000)
    bad = [(ob.name, r['result']) for ob, r in zip(obs, res) if r['result'] != 'unsat']
    print(new.strip()[:50].replace("\n"," "), '->', bad)
P = 'pybads/bads/bads.py'
run('_poll_step_', P, "            # Failed poll, decrease mesh size\n            self.mesh_size_integer -= 1", "            # Failed poll, decrease mesh size\n            self.mesh_size_integer += 1")
run('_poll_step_', P, "self.mesh_size_integer = np.minimum(\n                self.mesh_size_integer + 1, self.options[\"max_poll_grid_number\"]", "self.mesh_size_integer = np.maximum(\n                self.mesh_size_integer + 1, self.options[\"max_poll_grid_number\"]")
run('_poll_step_', P, "                if (\n                    self.f_q_historic_improvement < self.options[\"tol_fun\"]\n                ):", "                if True:")
run('_poll_step_', P, "            self.optim_state[\"search_size_integer\"] = np.minimum(\n                self.optim_state[\"search_size_integer\"],\n                self.mesh_size_integer * self.options[\"search_grid_multiplier\"]", "            self.optim_state[\"search_size_integer\"] = np.maximum(\n                self.optim_state[\"search_size_integer\"],\n                self.mesh_size_integer * self.options[\"search_grid_multiplier\"]")
run('_poll_step_', P, "                        poll_best_improvement > self.sufficient_improvement\n                    )", "                        poll_best_improvement >= self.sufficient_improvement\n                    )")
run('_poll_step_', P, "            and self.function_logger.func_count < self.options[\"max_fun_evals\"]\n            and poll_count", "            and self.function_logger.func_count <= self.options[\"max_fun_evals\"]\n            and poll_count")
run('_poll_step_', P, "            # Increase poll counter\n            poll_count += 1", "            # Increase poll counter\n            poll_count += 0")
