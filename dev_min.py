import sys, time
sys.path.insert(0, '/verif')
from pyvc.index import RepoIndex
from pyvc import contracts as C
from pyvc.verify import verify_function
from pyvc.solve import relevant_facts, _syms
import z3
reg = C.load_all(); idx = RepoIndex()
q = [k for k in reg if k.endswith(sys.argv[1])][0]
eng, obs, cx, t = verify_function(idx, reg, q)
ob = [o for o in obs if sys.argv[2] in o.name][0]
cache={}
seeds=_syms(ob.hyp,cache)|_syms(ob.goal,cache)
a,_=relevant_facts(cx.facts[:ob.stamp],seeds,cache)
def run(fs, to=5000):
    s=z3.Solver(); s.set('timeout',to); [s.add(f) for f in fs]; s.add(ob.hyp); s.add(z3.Not(ob.goal)); t=time.time(); r=s.check(); return str(r), round(time.time()-t,2)
print("all", run(a, 10000))
qf=[f for f in a if not z3.is_quantifier(f)]
print("no quantified facts", len(qf), run(qf))
for i,f in enumerate(a):
    if z3.is_quantifier(f):
        r=run([g for g in a if g is not f])
        print(i, r, str(f)[:150].replace("\n"," "))
print("---- settings")
for name, opts in [("mbqi off", {"smt.mbqi": False}), ("auto_config off", {"auto_config": False, "smt.mbqi": False}), ("ematching only + relevancy 0", {"smt.mbqi": False, "smt.relevancy": 0})]:
    s=z3.Solver(); s.set('timeout',10000)
    for k,v in opts.items(): s.set(k, v)
    [s.add(f) for f in a]; s.add(ob.hyp); s.add(z3.Not(ob.goal)); t=time.time(); r=s.check(); print(name, r, round(time.time()-t,2), s.reason_unknown() if str(r)=='unknown' else '')
print("---- split")
proj = z3.Bool("proj")
for nm, extra in [("proj", proj), ("not proj", z3.Not(proj))]:
    for opts in [{}, {"auto_config": False, "smt.mbqi": False}]:
        s=z3.Solver(); s.set('timeout',10000)
        for k,v in opts.items(): s.set(k, v)
        [s.add(f) for f in a]; s.add(ob.hyp); s.add(extra); s.add(z3.Not(ob.goal)); t=time.time(); r=s.check(); print(nm, opts, r, round(time.time()-t,2))
print("---- ground facts")
for f in a:
    if not z3.is_quantifier(f):
        print(str(f)[:1800]); print("--")
