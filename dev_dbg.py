import sys
sys.path.insert(0, '/verif')
from pyvc.index import RepoIndex
from pyvc import contracts as C
from pyvc.verify import verify_function
from pyvc.solve import relevant_facts, _syms
reg = C.load_all(); idx = RepoIndex()
q = [k for k in reg if k.endswith(sys.argv[1])][0]
eng, obs, cx, t = verify_function(idx, reg, q)
for ob in obs:
    if sys.argv[2] in ob.name:
        cache={}
        seeds=_syms(ob.hyp,cache)|_syms(ob.goal,cache)
        a,_=relevant_facts(cx.facts[:ob.stamp],seeds,cache)
        b,_=relevant_facts(cx.facts,seeds,cache)
        ida={f.get_id() for f in a}
        print(ob.name, ob.stamp, len(cx.facts), len(a), len(b))
        for f in b:
            if f.get_id() not in ida:
                print("  LATE FACT idx", [i for i,g in enumerate(cx.facts) if g.get_id()==f.get_id()], str(f)[:300].replace("\n"," "))
        import z3
        print("GOAL", str(ob.goal)[:1500])
        s=z3.Solver(); [s.add(f) for f in a]; s.add(ob.hyp); s.add(z3.Not(ob.goal)); print(s.check())
        m=s.model()
        for d in m.decls():
            if 'orig' in d.name() or 'sk_' in d.name() or d.name()=='function_logger.D': print("   ", d.name(), m[d])
