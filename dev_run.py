import sys, time, json, os
sys.path.insert(0, '/verif')
from pyvc.index import RepoIndex
from pyvc import contracts as C
from pyvc.verify import verify_function
from pyvc.solve import discharge, check_sat
from pyvc.vals import ctx
import z3
reg = C.load_all()
idx = RepoIndex()
quals = sys.argv[1:] or list(reg)
for q in quals:
    q = [k for k in reg if k.endswith(q)][0]
    eng, obs, cx, t = verify_function(idx, reg, q, pid=os.environ.get("PID"))
    print("==", q, "symexec %.2fs" % t, "obligations", len(obs), "facts", len(cx.facts))
    res = discharge(obs, cx.facts, timeout_ms=20000)
    for ob, r in zip(obs, res):
        print("  %-8s %6.2fs %s%s" % (r['result'], r['secs'], ob.name, " [top]" if ob.top else ""))
        if r['result'] != 'unsat' and r.get('reason'):
            print("     reason:", str(r['reason'])[:400])
        if r['result'] == 'sat' and '-v' in sys.argv and r['model']:
            print("     model:", {k: v for k, v in list(r['model'].items())[:40]})
    cov = check_sat([c for _, c in eng.covers], cx.facts)
    for (n, _), r in zip(eng.covers, cov):
        if r != 'sat':
            print("  COVER", r, n)
    kinds = {}
    for k, w, tx in cx.notes:
        kinds.setdefault(k, []).append((w, tx))
    for k, v in kinds.items():
        print("  note", k, len(v), [x[1] for x in v][:12])
    if '-d' in sys.argv:
        pat = sys.argv[sys.argv.index('-d')+1]
        from pyvc.solve import to_smt2
        for ob in obs:
            if pat in ob.name:
                s = z3.Solver(); s.set('timeout', 30000); s.set('random_seed', 0); s.set('auto_config', False); s.set('smt.mbqi', False); s.from_string(to_smt2(ob, cx.facts, {}))
                print(ob.name, s.check())
                if s.check() == z3.unsat: continue
                m = s.model()
                def atoms(e, out):
                    if z3.is_app(e) and e.decl().kind() in (z3.Z3_OP_AND, z3.Z3_OP_OR, z3.Z3_OP_NOT, z3.Z3_OP_IMPLIES, z3.Z3_OP_ITE) or (z3.is_app(e) and z3.is_bool(e) and e.decl().kind()==z3.Z3_OP_EQ and z3.is_bool(e.arg(0))):
                        for c in e.children(): atoms(c, out)
                    else:
                        out.append(e)
                out=[]; atoms(ob.goal, out)
                for a in out:
                    print("   GOAL-ATOM", str(a)[:300].replace("\n"," "), "=", m.eval(a, model_completion=True))
                    if z3.is_app(a):
                        for ch in a.children():
                            print("        ", str(ch)[:200].replace("\n"," "), "=", m.eval(ch, model_completion=True))
