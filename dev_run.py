import sys, time, json
sys.path.insert(0, '/verif')
from pyvc.index import RepoIndex
from pyvc import contracts as C
from pyvc.verify import verify_function
from pyvc.solve import discharge, check_sat
from pyvc.vals import ctx
import z3
reg = C.load_all()
idx = RepoIndex()
quals = sys.argv[1:] or list(reg)
for q in quals:
    q = [k for k in reg if k.endswith(q)][0]
    eng, obs, cx, t = verify_function(idx, reg, q)
    print("==", q, "symexec %.2fs" % t, "obligations", len(obs), "facts", len(cx.facts))
    res = discharge(obs, cx.facts, timeout_ms=20000)
    for ob, r in zip(obs, res):
        print("  %-8s %6.2fs %s%s" % (r['result'], r['secs'], ob.name, " [top]" if ob.top else ""))
        if r['result'] == 'sat' and '-v' in sys.argv:
            print("     model:", {k: v for k, v in list(r['model'].items())[:40]})
    cov = check_sat([c for _, c in eng.covers], cx.facts)
    for (n, _), r in zip(eng.covers, cov):
        if r != 'sat':
            print("  COVER", r, n)
    kinds = {}
    for k, w, tx in cx.notes:
        kinds.setdefault(k, []).append((w, tx))
    for k, v in kinds.items():
        print("  note", k, len(v), [x[1] for x in v][:12])
