import sys
sys.path.insert(0, '/verif')
from pyvc.index import RepoIndex
from pyvc import contracts as C
from pyvc.verify import verify_function
from pyvc.solve import to_smt2
reg = C.load_all(); idx = RepoIndex()
q = [k for k in reg if k.endswith(sys.argv[1])][0]
eng, obs, cx, t = verify_function(idx, reg, q)
for ob in obs:
    if sys.argv[2] in ob.name:
        txt = to_smt2(ob, cx.facts, {})
        open('/tmp/q.smt2','w').write(txt)
        print(ob.name, len(txt), 'bytes', ob.nfacts, 'facts')
        print("GOAL:", str(ob.goal)[:3000])
