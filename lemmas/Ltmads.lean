/-
C14, mathematical part (connected to the code only through the structural obligations proved by pyvc on
`poll_mads_2n`): a lower-triangular integer matrix with non-zero diagonal, with its rows permuted and then
transposed (and with every column scaled by a non-zero real), is non-singular; and the 2n vectors {±dᵢ} of any
basis positively span the space.
-/
import Mathlib

open Matrix

variable {n : ℕ}

/-- `L` lower triangular with non-zero diagonal ⇒ det ≠ 0. -/
theorem det_lower_ne_zero (L : Matrix (Fin n) (Fin n) ℤ)
    (hL : ∀ i j, i < j → L i j = 0) (hd : ∀ i, L i i ≠ 0) : L.det ≠ 0 := by
  have htri : L.BlockTriangular (OrderDual.toDual : Fin n → (Fin n)ᵒᵈ) := by
    intro i j hij
    exact hL i j (by simpa using hij)
  rw [Matrix.det_of_lowerTriangular L htri]
  exact Finset.prod_ne_zero_iff.mpr (fun i _ => hd i)

/-- rows permuted by `σ`, then transposed: still non-singular (this is `D = transpose(permutation(L))`). -/
theorem det_ltmads_ne_zero (L : Matrix (Fin n) (Fin n) ℤ) (σ : Equiv.Perm (Fin n))
    (hL : ∀ i j, i < j → L i j = 0) (hd : ∀ i, L i i ≠ 0) :
    ((L.submatrix σ id)ᵀ).det ≠ 0 := by
  rw [Matrix.det_transpose, Matrix.det_permute]
  exact mul_ne_zero (by
    rcases Int.units_eq_one_or (Equiv.Perm.sign σ) with h | h <;> simp [h]) (det_lower_ne_zero L hL hd)

/-- scaling every column by a non-zero real keeps the determinant non-zero (division by `poll_scale`). -/
theorem det_col_scale_ne_zero (M : Matrix (Fin n) (Fin n) ℝ) (s : Fin n → ℝ)
    (hs : ∀ j, s j ≠ 0) (hM : M.det ≠ 0) : (M * Matrix.diagonal s).det ≠ 0 := by
  rw [Matrix.det_mul, Matrix.det_diagonal]
  exact mul_ne_zero hM (Finset.prod_ne_zero_iff.mpr (fun j _ => hs j))

/-- `{+dᵢ} ∪ {-dᵢ}` of a basis positively spans: every vector is a non-negative combination. -/
theorem pos_span_of_basis {ι : Type*} [Fintype ι] {V : Type*} [AddCommGroup V] [Module ℝ V]
    (b : Module.Basis ι ℝ V) (v : V) :
    ∃ p q : ι → ℝ, (∀ i, 0 ≤ p i) ∧ (∀ i, 0 ≤ q i) ∧ v = ∑ i, (p i • b i + q i • (-(b i))) := by
  refine ⟨fun i => max (b.repr v i) 0, fun i => max (-(b.repr v i)) 0, fun i => le_max_right _ _, fun i => le_max_right _ _, ?_⟩
  conv_lhs => rw [← b.sum_repr v]
  apply Finset.sum_congr rfl
  intro i _
  rw [smul_neg, ← sub_eq_add_neg, ← sub_smul]
  congr 1
  rcases le_total 0 (b.repr v i) with h | h
  · simp [max_eq_left h, max_eq_right (neg_nonpos.mpr h)]
  · simp [max_eq_right h, max_eq_left (neg_nonneg.mpr h)]
