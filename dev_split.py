import sys, time
sys.path.insert(0, '/verif')
from pyvc.index import RepoIndex
from pyvc import contracts as C
from pyvc.verify import verify_function
from pyvc.solve import relevant_facts, _syms
import z3
reg = C.load_all(); idx = RepoIndex()
q = [k for k in reg if k.endswith(sys.argv[1])][0]
eng, obs, cx, t = verify_function(idx, reg, q, pid=((sys.argv[3] or None) if len(sys.argv)>3 and not sys.argv[3].startswith("--") else None))
ob = [o for o in obs if sys.argv[2] in o.name][0]
cache={}
seeds=_syms(ob.hyp,cache)|_syms(ob.goal,cache)
a,_=relevant_facts(cx.facts[:ob.stamp],seeds,cache)
def conj(e):
    if z3.is_and(e):
        r=[]
        for c in e.children(): r+=conj(c)
        return r
    if z3.is_app(e) and e.decl().kind()==z3.Z3_OP_IMPLIES:
        return [z3.Implies(e.arg(0), c) for c in conj(e.arg(1))]
    return [e]
for g in conj(ob.goal):
    s=z3.Solver(); s.set('timeout',10000); s.set('auto_config',False); s.set('smt.mbqi',False)
    [s.add(f) for f in a]; s.add(ob.hyp); s.add(z3.Not(g)); r=s.check()
    print(r, str(g)[:400].replace("\n"," "))
print("---- configs on first failing conjunct")
g = conj(ob.goal)[0]
for name, opts in [("default", {}), ("mbqi off", {"smt.mbqi": False}), ("both", {"auto_config": False, "smt.mbqi": False}), ("auto_config off only", {"auto_config": False})]:
    s=z3.Solver(); s.set('timeout',10000)
    for k,v in opts.items(): s.set(k,v)
    [s.add(f) for f in a]; s.add(ob.hyp); s.add(z3.Not(g)); t=time.time(); r=s.check(); print(name, r, round(time.time()-t,2), s.reason_unknown() if r==z3.unknown else "")
if '--model' in sys.argv:
    s=z3.Solver(); s.set('timeout',30000)
    [s.add(f) for f in a]; s.add(ob.hyp); s.add(z3.Not(g)); print(s.check())
    m=s.model()
    for d in sorted(m.decls(), key=lambda d: d.name()):
        if d.arity()==0: print("  ", d.name(), "=", m[d])
        else: print("  ", d.name(), "=", str(m[d])[:300].replace("\n"," "))
