from pyvc.contracts import contract
from .function_logger import wf_at
from .common import type_options, type_bads_state, inv_bads, inv_c04, INC, MIN, LOGMAP, DET, NOHE, LOG_GROWS, inv_c02, FEAS, LOGFEAS, HISTFEAS, H_ALIGNED, HU, HX, HY, HFC, HIST_PAIRS, HIST_PAIRS_EX, HIST_XMAP, HIST_FC

B = "pybads.bads.bads.BADS"

MSG_FUN = "Optimization terminated: reached maximum number of function evaluations options['max_fun_evals']."
MSG_ITER = "Optimization terminated: reached maximum number of iterations options['max_iter']."
MSG_MESH = "Optimization terminated: change in the function value less than options['tol_mesh']"
MSG_TOLFUN = "Optimization terminated: change in the function value less than options['tol_fun']."

LETS = dict(sc="self.optim_state['search_count']", ss="self.search_success", fc="self.function_logger.func_count",
            NT="self.options['search_n_try']", MI="self.options['max_iter']", B_="self.options['max_fun_evals']",
            msi="self.mesh_size_integer", cap="self.options['max_poll_grid_number']",
            ssi="self.optim_state['search_size_integer']", lvl="self.optim_state['uncertainty_handling_level']",
            nfs="self.options['noise_final_samples']", nY="count_true(self.function_logger.X_flag)")


def c10(c, extra=()):
    """C10: a failing target call surfaces immediately: no handler on the path, no further call, honest count."""
    c.check_raises = True
    c.bools("ghost.target_raised")
    c.req("no_pending_failure", "not truthy(ghost.target_raised)", props=["C10"])
    c.ens("target_failure_not_swallowed", "not truthy(ghost.target_raised)", top=True, props=["C10"])
    counted = "fc - old(fc) <= ghost.n_calls - old(ghost.n_calls) and ghost.n_calls - old(ghost.n_calls) <= fc - old(fc) + 1"
    for e in ("TargetError", "ValueError", "AssertionError") + tuple(extra):
        c.may_raise(e, ensures={"counted": counted, "flag": "truthy(ghost.target_raised)" if e == "TargetError" else "not truthy(ghost.target_raised)"})
    c.exc_ens("only_valid_calls_counted", counted, top=True, props=["C10"])
    c.exc_class_when("TargetError", "truthy(ghost.target_raised)", "target_exception_propagates_unchanged", props=["C10"])


def common(c):
    type_options(c)
    type_bads_state(c)
    inv_bads(c)
    c.arr("self.function_logger.X_flag", 1, [None], "bool")
    c.arr("self.function_logger.Y", 2, [None, 1])
    c.ints("ghost.n_calls", "ghost.fc_round", "ghost.fc_init", "ghost.fc_tail0")
    c.let(**LETS)


def options_wf(c):
    """OPTIONS_WF: the part of the option space the claims quantify over (each clause is a precondition;
    the defaults satisfy all of them for every D >= 1 - lemma options_defaults, discharged every run)."""
    c.req("wf_ntry", "NT >= 1")
    c.req("wf_maxiter", "MI >= 1")
    c.req("wf_tolfun", "self.options['tol_fun'] > 0")
    c.req("wf_tolimpr", "self.options['tol_improvement'] >= 0")
    c.req("wf_gridnum", "self.options['search_grid_number'] >= 0")
    c.req("wf_cap", "cap == 0")
    c.req("wf_no_mesh_expand", "self.options['search_mesh_expand'] == 0")
    c.req("wf_D", "self.D >= 1")
    c.req("wf_nfs", "nfs >= 0")


@contract(B + "._search_step_", serves=["C03", "C13", "C18"])
def _(c):
    common(c)
    c.req("no_stobads", "not truthy(self.options['stobads'])")
    c.req("forcing_nonneg", "self.optim_state['search_sufficient_improvement'] >= 0")
    c.req("sc_lt", "0 <= sc and sc < NT", props=["C03"])
    # C18: what the search step hands to the hedge / ES search (options as documented; an existing hedge object is well formed)
    from .search import hedge_wf, es_options, ES_OPTIONS_WF
    es_options(c, "self.options")
    c.ints("self.options['search_method'].__len__")
    c.typ("self.search_es_hedge", nonnull=False)
    c.req("c18_options_wf", ES_OPTIONS_WF.format("self.options") + " and self.options['search_method'].__len__ >= 1 and self.options['hedge_gamma'] >= 0 and "
          "self.options['search_method'].__len__ * self.options['hedge_gamma'] <= 1", props=["C18"])
    c.req("c18_hedge_wf", "implies(not isnone(self.search_es_hedge), " + hedge_wf(c, "self.search_es_hedge") + ")", props=["C18"])
    c.req("c18_meshes_positive", "self.optim_state['tol_mesh'] > 0 and self.optim_state['search_mesh_size'] > 0", props=["C18"])
    c.req("c18_search_box_nonempty", "forall(self.D, lambda j: self.optim_state['lb_search'][0][j] <= self.optim_state['ub_search'][0][j])", props=["C18"])
    # C03: one search attempt is always counted, and costs at most one evaluation (C18)
    c.ens("search_counted", "sc == old(sc) + 1", top=True, props=["C03"])
    c.ens("at_most_one_eval", "fc >= old(fc) and fc <= old(fc) + 1", top=True, props=["C03", "C18"])
    c.ens("success_needs_eval", "ss >= old(ss) and ss - old(ss) <= fc - old(fc)", props=["C03"])
    c.ens("points_kept", "nY >= old(nY)", props=["C03"])
    c.ens("calls_counted", "ghost.n_calls - old(ghost.n_calls) == fc - old(fc)", top=True, props=["C03"])
    # C13: the search step never touches the poll mesh / search mesh exponents
    c.ens("mesh_untouched", "msi == old(msi) and ssi == old(ssi) and self.optim_state['mesh_size'] == old(self.optim_state['mesh_size'])",
          top=True, props=["C13"])
    c.ens("options_kept", "NT == old(NT) and B_ == old(B_) and MI == old(MI)")
    c.ens("level_kept", "lvl == old(lvl)")
    c.ens("log_only_grows", LOG_GROWS, props=["C19", "C04"])
    c.req("sloppy", "truthy(self.options['sloppy_improvement'])", props=["C04", "C19"])
    c.req("u_is_best", "implies(" + DET + ", pteq(pt(self.u), pt(self.u_best)))", props=["C04", "C19"])
    c.ens("u_is_best", "implies(" + DET + ", pteq(pt(self.u), pt(self.u_best)))", props=["C04", "C19"])
    inv_c04(c)
    inv_c02(c)
    c10(c)
    c.unbound_checks = True  # C09: reading a local that is unbound on the path raises UnboundLocalError (u_search with an empty search set)


@contract(B + ".optimize", serves=["C03", "C13"])
def _(c):
    common(c)
    options_wf(c)
    c.const("self.options['output_fcn']", None)
    c.req("fresh_instance", "sc == NT", props=["C03"])
    c.req("no_stobads", "not truthy(self.options['stobads'])")
    c.req("mesh_start", "msi <= cap and ssi <= msi", props=["C13"])
    c.req("ghost_sync", "ghost.n_calls == fc", props=["C03"])
    inv = {
        "c03_sc_range": "0 <= sc and sc <= NT",
        "c03_search_needs_points": "implies(0 < sc and sc < NT, nY > self.D)",
        "c03_ss_bound": "0 <= ss and ss <= fc - ghost.fc_round and ghost.fc_round <= fc",
        "c03_pi_range": "poll_iteration >= 0 and loop_iter >= 0",
        "c03_continuing": "implies(loop_iter > 0 and not is_finished, fc < B_ and poll_iteration <= MI - 1)",
        "c03_first": "implies(loop_iter == 0, sc == NT and ss == 0 and poll_iteration == 0 and not is_finished)",
        "c03_budget": "fc <= ite(B_ >= ghost.fc_init, B_, ghost.fc_init) and fc >= ghost.fc_init",
        "c03_iter_is_pi": "implies(loop_iter > 0, self.optim_state['iter'] == poll_iteration) and poll_iteration <= ite(MI - 1 >= 0, MI - 1, 0)",
        "c03_calls_counted": "ghost.n_calls == fc",
        "c10_no_failure": "not truthy(ghost.target_raised)",
        "logger_wf": wf_at("self.function_logger"),
        "c03_options_kept": "NT == ghost.NT0 and MI == ghost.MI0 and B_ == ghost.B0 and cap == old(cap) and nfs == ghost.nfs0"
                        " and self.options['tol_fun'] == old(self.options['tol_fun'])",
        # C13
        "c13_mesh_cap": "msi <= cap and ssi <= msi",
        # C04
        "c04_incumbent_logged": "implies(" + DET + ", " + INC("self.u_best", "self.yval") + ")",
        "c04_incumbent_minimal": "implies(" + DET + ", " + MIN("self.yval") + ")",
        "c04_estimate_is_observation": "implies(" + DET + ", self.fval == self.yval and self.fsd == 0)",
        "c04_log_maps_back": LOGMAP,
        "c04_u_is_best": "implies(" + DET + ", pteq(pt(self.u), pt(self.u_best)))",
        # C02 / C19 / C05: feasibility of incumbent, log and history iterates; history arrays aligned with the poll counter
        "c02_incumbent_feasible": FEAS("self.u_best"),
        "c02_current_point_feasible": FEAS("self.u"),
        "c02_log_feasible": LOGFEAS,
        "c02_history_feasible": HISTFEAS,
        "hist_aligned": H_ALIGNED + " and rows(" + HU + ") == poll_iteration + ite(is_finished, 1, 0)",
        # C19: every recorded iterate is a logged evaluation with the recorded value; x = inverse_transf(u); func_count monotone
        "c19_recorded_pairs_were_observed": "implies(" + DET + ", " + HIST_PAIRS + ")",
        "c19_recorded_x_is_image_of_u": HIST_XMAP,
        "c19_func_count_monotone": HIST_FC,
        "c19_last_is_current": "implies(is_finished and ((" + DET + ") or poll_iteration == 0), rows(" + HU + ") >= 1 and pteq(pt(self.u), row(" + HU + ", rows(" + HU + ") - 1)) and implies(" + DET + ", self.yval == " + HY + "[rows(" + HY + ") - 1]))",
        "c04_level_kept": "lvl == ghost.lvl0 and truthy(self.options['sloppy_improvement'])",
        "c03_msg_truth": "implies(is_finished, "
                     "(not streq(msg, '')) and streq(self.optim_state['termination_msg'], msg)"
                     " and implies(streq(msg, MSG_FUN), fc >= B_)"
                     " and implies(streq(msg, MSG_ITER), poll_iteration >= MI - 1)"
                     " and implies(streq(msg, MSG_MESH), self.optim_state['mesh_size'] < self.optim_state['tol_mesh'])"
                     " and implies(streq(msg, MSG_TOLFUN), self.f_q_historic_improvement < self.options['tol_fun']))",
    }
    c.loop(0, invariants=inv, variant=["MI - 1 - poll_iteration", "B_ - ghost.fc_round", "NT - sc"],
           ghost={"fc_round": "fc", "fc_init": "fc", "NT0": "NT", "MI0": "MI", "B0": "B_", "nfs0": "nfs", "lvl0": "lvl"},
           modifies_extra=["ghost.fc_round", "ghost.hidx", "ghost.hw"])
    c.hook("self.optim_state['search_count'] = 0", {"ghost.fc_round": "fc"})
    c.loop(1, invariants={
        "c03_tail_count": "fc == ghost.fc_tail0 + i_sample and i_sample >= 0",
        "c03_calls_counted": "ghost.n_calls == fc",
        "c10_no_failure": "not truthy(ghost.target_raised)",
        "logger_wf": wf_at("self.function_logger"),
        "c03_nfs_kept": "nfs == ghost.nfs1 and B_ == ghost.B1",
        "c05_fresh_samples": "forall(i_sample, lambda k: yval_vec[k] == retval(ghost.fc_tail0 + k + 1))",
        "c05_samples_at_point": "forall(lambda n: implies(ghost.fc_tail0 < n and n <= ghost.fc_tail0 + i_sample, pteq(argpt(n), invt(pt(ghost.u_tail)))))",
        "c05_reported_sds": "implies(truthy(self.function_logger.he_noise_flag), forall(i_sample, lambda k: ysd_vec[k] == retsd(ghost.fc_tail0 + k + 1)))",
        "c05_shape": "rows(yval_vec) == nfs and rows(ysd_vec) == nfs and i_sample <= nfs",
        "c05_point_kept": "pteq(pt(self.u), pt(ghost.u_tail))",
        "c02_sampling_point_feasible": FEAS("self.u"),
        "c02_log_feasible": LOGFEAS,
    }, variant=["nfs - i_sample"], ghost={"fc_tail0": "fc", "nfs1": "nfs", "B1": "B_", "u_tail": "self.u"})
    c.arr("yval_vec", 1, [None])
    c.arr("ysd_vec", 1, [None])
    c.strings(MSG_FUN=MSG_FUN, MSG_ITER=MSG_ITER, MSG_MESH=MSG_MESH, MSG_TOLFUN=MSG_TOLFUN)
    # ---- C03 top-level clauses ---------------------------------------------------------------------------------
    c.ens("terminates", "True", top=True, props=["C03"])   # carried by loop#0/loop#1 variant obligations
    c.ens("within_budget", "implies(ghost.fc_init <= old(B_), fc <= old(B_))", top=True, props=["C03"])
    c.ens("polls_within_max_iter", "self.optim_state['iter'] <= MI - 1 and MI == old(MI)", top=True, props=["C03"])
    c.ens("honest_count", "ghost.n_calls == fc", top=True, props=["C03"])
    c.ens("message_names_true_condition",
          "(not streq(self.optim_state['termination_msg'], ''))"
          " and implies(streq(self.optim_state['termination_msg'], MSG_FUN), fc >= B_)"
          " and implies(streq(self.optim_state['termination_msg'], MSG_ITER), self.optim_state['iter'] >= MI - 1)"
          " and implies(streq(self.optim_state['termination_msg'], MSG_MESH), self.optim_state['mesh_size'] < self.optim_state['tol_mesh'])"
          " and implies(streq(self.optim_state['termination_msg'], MSG_TOLFUN), self.f_q_historic_improvement < self.options['tol_fun'])",
          top=True, props=["C03", "C13"])
    # ---- C02 -----------------------------------------------------------------------------------------------------
    inv_c02(c, require=False)
    c.req("c02_current_point_feasible", FEAS("self.u"), props=["C02"])
    c.req("c02_log_feasible", LOGFEAS, props=["C02"])
    c.req("fresh_history", "rows(" + HU + ") == 0 and " + H_ALIGNED, props=["C19"])
    c.ens("returned_point_feasible", "feasx(pt(self.x))", top=True, props=["C02"])
    # ---- C05 -----------------------------------------------------------------------------------------------------
    NOISY_TAIL = "lvl > 0 and poll_iteration > 0 and nfs > 0"
    c.ens("final_samples_are_the_last_calls", "implies(" + NOISY_TAIL + ", ghost.fc_tail0 + nfs == fc and ghost.n_calls == fc)", top=True, props=["C05"])
    c.ens("final_samples_at_returned_x", "implies(" + NOISY_TAIL + ", forall(lambda n: implies(fc - nfs < n and n <= fc, pteq(argpt(n), invt(pt(self.u))))))", top=True, props=["C05"])
    c.ens("returned_x_is_image_of_final_u", "pteq(pt(self.x), invt(pt(self.u)))", top=True, props=["C05", "C19", "C04"])
    c.ens("yval_vec_is_the_fresh_observations", "implies(" + NOISY_TAIL + ", forall(nfs, lambda k: num(self.optim_state['yval_vec'][k]) == retval(ghost.fc_tail0 + k + 1)))",
          top=True, props=["C05"])
    c.ens("single_sample_supplemented_by_earlier_observation", "implies(" + NOISY_TAIL + " and nfs == 1, rows(self.optim_state['yval_vec']) == 2 and "
          "num(self.optim_state['yval_vec'][1]) == " + HY + "[min_q_beta_idx])", top=True, props=["C05"])
    c.ens("fval_is_mean_fsd_is_standard_error", "implies(" + NOISY_TAIL + ", self.fval == mean_of(self.optim_state['yval_vec']) and "
          "self.fsd == std_of(self.optim_state['yval_vec']) / ghost_sqrt(self.optim_state['yval_vec']))", top=True, props=["C05"])
    c.ens("ysd_vec_is_reported_sds", "implies(" + NOISY_TAIL + " and truthy(self.function_logger.he_noise_flag), "
          "forall(nfs, lambda k: num(self.optim_state['ysd_vec'][k]) == retsd(ghost.fc_tail0 + k + 1)))", top=True, props=["C05"])
    c.ens("returned_x_evaluated_earlier", "implies(lvl > 0 and poll_iteration > 0, 0 <= min_q_beta_idx and min_q_beta_idx < rows(" + HX + ") and "
          "pteq(pt(self.x), row(" + HX + ", min_q_beta_idx)))", top=True, props=["C05"])
    # ---- C19 -----------------------------------------------------------------------------------------------------
    c.req("fresh_history_c19", "rows(" + HX + ") == 0 and rows(" + HFC + ") == 0", props=["C19"])
    c.arr("ghost.hidx", 1, [None])
    c.req("fresh_ghost_index", "rows(ghost.hidx) == 0", props=["C19"])
    # ghost witness: the log row of the iterate recorded at this iteration (exists by the incumbent invariant)
    c.choose("self.iteration_history.record('yval', float(self.yval), poll_iteration)", "ghost.hw",
             "lambda i: 0 <= i and i <= self.function_logger.Xn and pteq(row(self.function_logger.X, i), pt(self.u)) and self.function_logger.Y[i][0] == self.yval",
             when=DET, props=["C19"])
    c.hook("self.iteration_history.record('yval', float(self.yval), poll_iteration)", {"ghost.hidx": "upd(ghost.hidx, poll_iteration, ghost.hw)"})
    c.ens("recorded_pairs_were_observed", "implies(" + DET + ", " + HIST_PAIRS_EX + ")", top=True, props=["C19"])
    c.ens("recorded_x_is_image_of_u", HIST_XMAP, top=True, props=["C19"])
    c.ens("func_count_monotone_and_bounded", HIST_FC, top=True, props=["C19"])
    c.ens("returned_x_is_last_recorded_iterate", "implies(" + DET + ", rows(" + HU + ") >= 1 and pteq(pt(self.x), row(" + HX + ", rows(" + HX + ") - 1)) and "
          "self.fval == " + HY + "[rows(" + HY + ") - 1])", top=True, props=["C19"])
    c.ens("returned_x_is_a_recorded_iterate_noisy_selected", "implies(lvl > 0 and poll_iteration > 0, 0 <= min_q_beta_idx and min_q_beta_idx < rows(" + HX + ") and "
          "pteq(pt(self.x), row(" + HX + ", min_q_beta_idx)))", top=True, props=["C19", "C05"])
    c.ens("returned_x_is_a_recorded_iterate_otherwise", "implies(not (lvl > 0 and poll_iteration > 0), rows(" + HX + ") >= 1 and pteq(pt(self.x), row(" + HX + ", rows(" + HX + ") - 1)))",
          top=True, props=["C19"])
    # ---- C04 -----------------------------------------------------------------------------------------------------
    c.req("sloppy", "truthy(self.options['sloppy_improvement'])", props=["C04", "C19"])
    c.req("fresh_log", "self.function_logger.Xn == -1", props=["C04", "C19"])
    c.req("log_maps_back", LOGMAP, props=["C04", "C19"])
    c.ens("result_is_best_evaluated_point", "implies(" + DET + ", "
          "exists(self.function_logger.Xn + 1, lambda i: pteq(row(self.function_logger.X_orig, i), pt(self.x)) and self.function_logger.Y[i][0] == self.fval) and "
          "forall(self.function_logger.Xn + 1, lambda i: self.fval <= self.function_logger.Y[i][0]) and self.fsd == 0)", top=True, props=["C04"])
    # ---- C13 -----------------------------------------------------------------------------------------------------
    c.ens("mesh_le_one", "msi <= 0 and ssi <= msi", top=True, props=["C13"])
    # C01: the returned solution lies in the original hard box
    c.ens("returned_x_in_hard_box", "forall(self.D, lambda j: self.var_transf.orig_lb[0][j] <= self.x[j] and self.x[j] <= self.var_transf.orig_ub[0][j])",
          top=True, props=["C01"])
    c10(c)


@contract(B + "._init_optimization_", serves=["C03", "C05"])
def _(c):
    common(c)
    c.req("nfs_nonneg", "nfs >= 0")
    c.ens("count_grows", "fc >= old(fc)", props=["C03"])
    c.ens("calls_counted", "ghost.n_calls - old(ghost.n_calls) == fc - old(fc)", top=True, props=["C03"])
    c.ens("controller_untouched", "sc == old(sc) and ss == old(ss) and NT == old(NT) and MI == old(MI) and cap == old(cap)"
          " and msi == old(msi) and ssi == old(ssi) and self.options['tol_fun'] == old(self.options['tol_fun'])"
          " and self.options['tol_improvement'] == old(self.options['tol_improvement'])"
          " and self.options['search_grid_number'] == old(self.options['search_grid_number'])"
          " and self.options['search_mesh_expand'] == old(self.options['search_mesh_expand'])")
    # reserve for the final re-sampling of noisy targets is carved out of the budget (C03/C05)
    c.ens("reserve", "implies(lvl > 0, nfs == ite(old(nfs) <= old(B_) - fc, old(nfs), old(B_) - fc) and B_ == old(B_) - nfs)",
          top=True, props=["C03", "C05"])
    c.ens("no_reserve_when_deterministic", "implies(lvl <= 0, nfs == old(nfs) and B_ == old(B_))", top=True, props=["C03"])
    c.req("fresh_log", "self.function_logger.Xn == -1", props=["C04", "C19"])
    c.req("log_maps_back", LOGMAP, props=["C04", "C19"])
    inv_c04(c, require=False)
    c.ens("u_is_best", "implies(" + DET + ", pteq(pt(self.u), pt(self.u_best)))", props=["C04", "C19"])
    inv_c02(c, require=False)
    c.req("c02_current_point_feasible", FEAS("self.u"), props=["C02"])
    c.req("c02_log_feasible", LOGFEAS, props=["C02"])
    c.ens("history_untouched", "same(" + HU + ", old(" + HU + ")) and " + H_ALIGNED.replace("rows(self.iteration_history['fval'])", "rows(self.iteration_history['fval'])"), props=["C19"])
    c.req("hist_aligned", H_ALIGNED, props=["C19"])
    c.ens("sloppy_kept", "truthy(self.options['sloppy_improvement']) == truthy(old(self.options['sloppy_improvement']))")
    c.ens("stobads_off_kept", "implies(not truthy(old(self.options['stobads'])), not truthy(self.options['stobads']))")
    c.result = {"tuple": [{}, {}, {}, {}]}
    c10(c)


@contract(B + "._init_mesh_", serves=["C03", "C05"])
def _(c):
    common(c)
    c.loop(0, invariants={"c03_count_grows": "fc >= old(fc)",
                          "c03_calls_counted": "ghost.n_calls - old(ghost.n_calls) == fc - old(fc)",
                          "c10_no_failure": "not truthy(ghost.target_raised)",
                          "logger_wf": wf_at("self.function_logger"),
                          "c04_log_maps_back": LOGMAP, "c04_log_grows": LOG_GROWS, "c04_he": "truthy(self.function_logger.he_noise_flag) == truthy(old(self.function_logger.he_noise_flag))",
                          "log_nonempty": "self.function_logger.Xn >= 0",
                          "c02_log_feasible": LOGFEAS})
    c.req("fresh_log", "self.function_logger.Xn == -1", props=["C04", "C19"])
    c.req("log_maps_back", LOGMAP, props=["C04", "C19"])
    inv_c04(c, require=False, u="self.u", with_fsd=False)
    inv_c02(c, u_best=False)
    # C05: a target whose two evaluations at the starting point differ by more than tol_noise is treated as stochastic, otherwise not
    c.ens("noise_detected_iff_two_values_differ", "implies(old(lvl) < 1, iff(lvl >= 1, abs(retval(old(ghost.n_calls) + 1) - retval(old(ghost.n_calls) + 2)) > self.options['tol_noise']) "
          "and pteq(argpt(old(ghost.n_calls) + 1), argpt(old(ghost.n_calls) + 2)))", top=True, props=["C05"])
    c.ens("declared_noise_level_kept", "implies(old(lvl) >= 1, lvl == old(lvl))", top=True, props=["C05"])
    c.ens("sloppy_kept", "truthy(self.options['sloppy_improvement']) == truthy(old(self.options['sloppy_improvement']))")
    c10(c)
    c.ens("count_grows", "fc >= old(fc)", props=["C03"])
    c.ens("calls_counted", "ghost.n_calls - old(ghost.n_calls) == fc - old(fc)", top=True, props=["C03"])
    c.ens("controller_untouched", "sc == old(sc) and ss == old(ss) and NT == old(NT) and MI == old(MI) and cap == old(cap)"
          " and msi == old(msi) and ssi == old(ssi) and self.options['tol_fun'] == old(self.options['tol_fun'])"
          " and self.options['tol_improvement'] == old(self.options['tol_improvement'])"
          " and self.options['search_grid_number'] == old(self.options['search_grid_number'])"
          " and self.options['search_mesh_expand'] == old(self.options['search_mesh_expand'])"
          " and nfs == old(nfs) and B_ == old(B_)"
          " and truthy(self.options['stobads']) == truthy(old(self.options['stobads']))")


@contract(B + "._re_evaluate_history_", serves=["C19", "C05", "C02"])
def _(c):
    common(c)
    c.req("hist_aligned", H_ALIGNED, props=["C19"])
    c.ens("hist_aligned", H_ALIGNED, props=["C19"])
    c.ens("iterates_untouched", "same(" + HU + ", old(" + HU + ")) and rows(" + HU + ") == rows(old(" + HU + ")) and same(self.iteration_history['yval'], old(self.iteration_history['yval']))",
          top=True, props=["C19", "C05", "C02"])
    c.ens("calls_untouched", "ghost.n_calls == old(ghost.n_calls)", props=["C03"])
    c.ens("log_untouched", "fc == old(fc) and self.function_logger.Xn == old(self.function_logger.Xn) and "
          "same(self.function_logger.X, old(self.function_logger.X)) and same(self.function_logger.Y, old(self.function_logger.Y))")
    c.ens("controller_untouched", "sc == old(sc) and ss == old(ss) and msi == old(msi) and ssi == old(ssi) and lvl == old(lvl) and NT == old(NT) and MI == old(MI) "
          "and B_ == old(B_) and nfs == old(nfs) and cap == old(cap) and self.options['tol_fun'] == old(self.options['tol_fun']) and "
          "truthy(self.options['sloppy_improvement']) == truthy(old(self.options['sloppy_improvement'])) and self.optim_state['mesh_size'] == old(self.optim_state['mesh_size']) "
          "and self.optim_state['tol_mesh'] == old(self.optim_state['tol_mesh']) and self.optim_state['iter'] == old(self.optim_state['iter'])")
    c.loop(0, invariants={"hist_aligned": H_ALIGNED, "hist_u_same": "same(" + HU + ", old(" + HU + ")) and rows(" + HU + ") == rows(old(" + HU + "))",
                          "hist_yval_same": "same(self.iteration_history['yval'], old(self.iteration_history['yval']))"})


@contract(B + "._init_optim_state_", serves=["C02", "C01", "C13"])
def _(c):
    type_options(c)
    c.ints("self.D")
    c.bools("ghost.cons_none")
    c.arr("self.x0", 2, [1, "self.D"])
    c.req("cons_ghost", "isnone(self.non_box_cons) == ghost.cons_none")
    c.req("D", "self.D >= 1")
    # C02: a mesh-snapped starting point that violates the constraint is rejected (ValueError), otherwise it is feasible
    c.ens("snapped_start_feasible", FEAS("self.u"), top=True, props=["C02"])
    c.ens("mesh_starts_at_one", "self.mesh_size_integer == self.options['init_mesh_size_integer'] and result['search_count'] == self.options['search_n_try']",
          top=True, props=["C13", "C03"])
    c.may_raise("ValueError")


def search_bounds_contract(c, props):
    """The mesh-rounded search box lies inside the (transformed) hard box and is not empty: the hard box contains the unit
    plausible box [-1, 1] and the search mesh size is at most 1, so a grid point survives on each side of 0.
    Proved for finite (transformed) hard bounds; for an unbounded coordinate both roundings leave the infinity alone
    (inf / m rounds to inf), which the real-number encoding does not represent."""
    c.ints("self.D")
    c.arr("self.optim_state['lb']", 2, [1, "self.D"])
    c.arr("self.optim_state['ub']", 2, [1, "self.D"])
    c.reals("self.optim_state['search_mesh_size']")
    c.let(m="self.optim_state['search_mesh_size']")
    c.req("mesh", "m > 0 and m <= 1", props=props)
    c.req("hard_box_contains_unit_plausible_box", "forall(self.D, lambda j: self.optim_state['lb'][0][j] <= -1 and self.optim_state['ub'][0][j] >= 1)", props=props)
    c.mod()
    c.result = {"tuple": [{"arrspec": (2, [1, "self.D"], "num", False)}, {"arrspec": (2, [1, "self.D"], "num", False)}]}
    c.ens("search_box_inside_hard_box", "forall(self.D, lambda j: self.optim_state['lb'][0][j] <= result[0][0][j] and result[1][0][j] <= self.optim_state['ub'][0][j])",
          top=True, props=props)
    c.ens("search_box_nonempty", "forall(self.D, lambda j: result[0][0][j] <= result[1][0][j])", top=True, props=props)


contract(B + "._update_search_bounds_", serves=["C18"])(lambda c: search_bounds_contract(c, ["C18"]))
# the same contract as an instance for C01 (internal clause: every logged point lies in the transformed box - the search
# candidates are projected onto this box): registered as a variant so that optimize's call site, which is not under this
# contract's preconditions for C01, is not affected
contract(B + "._update_search_bounds_#C01", serves=["C01"])(lambda c: search_bounds_contract(c, ["C01"]))
