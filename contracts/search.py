from pyvc.contracts import contract
from .transformer import vt_types

H = "pybads.search.search_hedge.ESSearchHedge"
ES = "pybads.search.es_search.ESSearch"



def es_call_requires(c, fl="func_logger", os_="optim_state", tag=("C18",)):
    """Preconditions of ESSearch.__call__ on the logger / optimiser state (shared with the hedge that forwards them)."""
    p = list(tag)
    c.ints(fl + ".D", fl + ".func_count", fl + ".X_max_idx", fl + ".Xn")
    c.typ(fl, nonnull=True)
    c.arr(fl + ".X", 2, [None, fl + ".D"])
    vt_types(c, fl + ".variable_transformer")
    c.arr(os_ + "['lb_search']", 2, [1, fl + ".D"], ext="lo")
    c.arr(os_ + "['ub_search']", 2, [1, fl + ".D"], ext="hi")
    c.reals(os_ + "['tol_mesh']", os_ + "['mesh_size']", os_ + "['search_mesh_size']", os_ + "['search_factor']")
    c.bools("ghost.cons_none")
    c.req("logger_sizes", "%s.D >= 1 and %s.func_count >= 0" % (fl, fl), props=p)
    c.req("tol_pos", "%s['tol_mesh'] > 0 and %s['search_mesh_size'] > 0" % (os_, os_), props=p)
    c.req("search_box_nonempty", "forall(%s.D, lambda j: %s['lb_search'][0][j] <= %s['ub_search'][0][j])" % (fl, os_, os_), props=p)
    c.req("log_index", "%s.X_max_idx >= -1 and %s.X_max_idx < rows(%s.X)" % (fl, fl, fl), props=p)
    c.req("inv_vt_order", "forall(%s.D, lambda j: %s.variable_transformer.orig_lb[0][j] <= %s.variable_transformer.orig_ub[0][j])" % (fl, fl, fl), props=p)
    c.req("vt_dim", "%s.variable_transformer.D == %s.D" % (fl, fl), props=p)


def es_options(c, root):
    c.ints(root + "['n_search_iter']", root + "['n_search']")
    c.reals(root + "['hedge_gamma']", root + "['hedge_beta']", root + "['hedge_decay']")
    c.typ(root + "['search_acq_fcn'][0]", str=True)
    c.strings(LCB="acq_LCB")


ES_OPTIONS_WF = "{0}['n_search_iter'] >= 1 and {0}['n_search'] >= {0}['n_search_iter'] and streq({0}['search_acq_fcn'][0], LCB)"


@contract(ES + ".__init__", serves=["C18"])
def _(c):
    c.ints("mu", "lamb")
    es_options(c, "options_dict")
    c.ints("self.mu", "self.lamb", "self.n_search_iter")
    c.typ("self.search_acq_fcn[0]", str=True)
    c.mod_prefix("self")
    c.ens("fields", "self.mu == mu and self.lamb == lamb and self.n_search_iter == options_dict['n_search_iter'] and "
          "streq(self.search_acq_fcn[0], options_dict['search_acq_fcn'][0])", props=["C18"])


@contract("pybads.search.es_search.ESSearchWM.__init__", serves=["C18"])
def _(c):
    c.ints("mu", "lamb")
    es_options(c, "options_dict")
    c.ints("self.mu", "self.lamb", "self.n_search_iter")
    c.typ("self.search_acq_fcn[0]", str=True)
    c.mod_prefix("self")
    c.ens("fields", "self.mu == mu and self.lamb == lamb and self.n_search_iter == options_dict['n_search_iter'] and "
          "streq(self.search_acq_fcn[0], options_dict['search_acq_fcn'][0])", props=["C18"])


def hedge_wf(c, h, p=("C18",)):
    """Well-formedness of a hedge object (established by its constructor, kept by __call__ and update_hedge)."""
    c.ints(h + ".n_funs", h + ".count", h + ".mu", h + ".lamb")
    c.reals(h + ".gamma", h + ".beta")
    c.arr(h + ".g", 1, [h + ".n_funs"])
    c.arr(h + ".prob", 1, [h + ".n_funs"])
    es_options(c, h + ".options_dict")
    c.bools("ghost.cons_none")
    c.typ(h + ".non_box_cons", callable=True)
    return ("{0}.n_funs >= 1 and {0}.gamma >= 0 and {0}.n_funs * {0}.gamma <= 1 and {0}.mu >= 1 and {0}.lamb >= 1 and "
            "isnone({0}.non_box_cons) == ghost.cons_none and " + ES_OPTIONS_WF.format("{0}.options_dict")).format(h)


@contract(H + ".__init__", serves=["C18"])
def _(c):
    es_options(c, "options_dict")
    c.ints("search_fcns.__len__")
    c.req("portfolio_nonempty", "search_fcns.__len__ >= 1", props=["C18"])
    c.req("floor_admissible", "options_dict['hedge_gamma'] >= 0 and search_fcns.__len__ * options_dict['hedge_gamma'] <= 1", props=["C18"])
    c.req("es_options_wf", ES_OPTIONS_WF.format("options_dict"), props=["C18"])
    c.req("cons_ghost", "isnone(non_box_cons) == ghost.cons_none", props=["C18"])
    wf = hedge_wf(c, "self")
    c.mod_prefix("self")
    c.ens("hedge_wf", wf, props=["C18"])


@contract(H + ".__call__", serves=["C18"])
def _(c):
    """Hedge: the strategy is drawn from a proper distribution with exploration floor gamma."""
    wf = hedge_wf(c, "self")
    c.req("hedge_wf", wf, props=["C18"])
    es_call_requires(c, "func_logger", "optim_state")
    c.arr("u", 1, ["func_logger.D"])
    c.mod_prefix("self")
    c.arr("ghost.uc", 2, [None, "func_logger.D"])
    c.arr("ghost.zc", 1, [None])
    c.mod("ghost.uc", "ghost.zc")
    c.ens("probabilities_at_least_floor", "forall(self.n_funs, lambda i: self.prob[i] >= self.gamma)", top=True, props=["C18"])
    c.ens("probabilities_sum_to_one", "sum_of(self.prob) == 1", top=True, props=["C18"])
    c.ens("hedge_wf", wf, props=["C18"])
    c.check_raises = True
    c.raise_props = ("C09", "C18")
    c.may_raise("ValueError")


@contract(ES + ".__call__", serves=["C18"], mode="ext")
def _(c):
    """The proposal is an acquisition-minimal element of everything the ES generated that survived the filter, all inside
    the mesh-rounded search box.  Candidate *generation* (random normal draws, covariance, reproduction) is irrelevant to the
    property and is executed as havoc of u_new (opaque statements, listed)."""
    c.arr("u", 1, ["func_logger.D"])
    c.ints("self.mu", "self.lamb", "self.n_search_iter")
    es_call_requires(c, "func_logger", "optim_state")
    c.arr("self.vec", 2, ["self.mu", 1])
    c.arr("gp.X", 2, [None, "func_logger.D"])
    c.strings(LCB="acq_LCB")
    c.typ("self.search_acq_fcn[0]", str=True)
    c.req("sizes", "self.mu >= 1 and self.lamb >= 1 and self.n_search_iter >= 1", props=["C18"])
    c.req("acq_is_lcb", "streq(self.search_acq_fcn[0], LCB)", props=["C18"])
    c.req("cons_ghost", "isnone(non_box_cons) == ghost.cons_none", props=["C18"])
    c.mod_prefix("self")
    A2 = ["u_new", "us_candidates", "us"]
    for a in A2:
        c.arr(a, 2, [None, "func_logger.D"])
    c.arr("z_candidates", 1, [None])
    c.arr("z", 1, [None])
    c.opaque_stmt("self.sqrt_sigma = self._initialize_", "self.sqrt_sigma = self.mesh_size", "u_new = u + self.vec", "u_new = us[selection_mask[0:ll]]",
                  "selection_mask = self._get_selection_idx_mask_")
    INBOX = lambda a: "forall(rows(%s), func_logger.D, lambda k, j: optim_state['lb_search'][0][j] <= %s[k][j] and %s[k][j] <= optim_state['ub_search'][0][j])" % (a, a, a)
    # ghost: everything that ever left the candidate filter in this call, with its acquisition value (generation order)
    c.arr("ghost.uc", 2, [None, "func_logger.D"])
    c.arr("ghost.zc", 1, [None])
    c.hook("self.mesh_size = optim_state['mesh_size']", {"ghost.uc": "np.zeros((0, func_logger.D))", "ghost.zc": "np.zeros(0)"})  # the pool starts empty
    c.mod("ghost.uc", "ghost.zc")
    c.hook("z_new = z_new.flatten()", {"ghost.uc": "np.append(ghost.uc, u_new, axis=0)", "ghost.zc": "np.append(ghost.zc, z_new, axis=0)"})
    GH_IN_BOX = INBOX("ghost.uc")
    c.loop(0, invariants={
        "c18_iter": "i >= 0 and implies(i == 0, rows(ghost.zc) == 0) and rows(ghost.uc) == rows(ghost.zc)",
        "c09_pool_is_bound_after_the_first_generation": "implies(i > 0, not isunbound(us_candidates) and not isunbound(z_candidates))",
        "c18_pool_is_every_survivor": "implies(i > 0, rows(us_candidates) == rows(ghost.uc) and rows(z_candidates) == rows(ghost.zc) and "
                                      "forall(rows(ghost.zc), lambda k: z_candidates[k] == ghost.zc[k] and pteq(row(us_candidates, k), row(ghost.uc, k))))",
        "c18_survivors_in_box": GH_IN_BOX,
        "c18_values_are_acquisition": "forall(rows(ghost.uc), lambda k: ghost.zc[k] == acqv(row(ghost.uc, k), func_logger.func_count))",
        "c18_kept_sorted_prefix": "implies(i > 0, rows(us) == rows(z) and rows(us) <= rows(us_candidates) and implies(rows(us_candidates) >= 1, rows(us) >= 1) and "
                                  "forall(rows(z_candidates), lambda j: implies(rows(z) >= 1, z[0] <= z_candidates[j])) and "
                                  "implies(rows(z) >= 1, exists(rows(us_candidates), lambda k: pteq(row(us, 0), row(us_candidates, k)) and z[0] == z_candidates[k])))",
    }, props=["C18"])
    # top-level clauses, stated at the return over the ghost pool of all survivors
    c.ens("proposal_has_lowest_acquisition", "implies(rows(ghost.zc) >= 1, forall(rows(ghost.zc), lambda j: result[1] <= ghost.zc[j]))", top=True, props=["C18"])
    c.ens("proposal_is_a_surviving_candidate", "implies(rows(ghost.zc) >= 1, exists(rows(ghost.uc), lambda k: pteq(pt(result[0]), row(ghost.uc, k)) and result[1] == ghost.zc[k] and "
          "result[1] == acqv(row(ghost.uc, k), func_logger.func_count)))", top=True, props=["C18"])
    c.ens("empty_search_set_when_nothing_survived", "implies(rows(ghost.zc) == 0, rows(us) == 0 and rows(z) == 0)", top=True, props=["C18", "C09"])
    c.ens("all_candidates_in_mesh_rounded_box", GH_IN_BOX, top=True, props=["C18"])
    c.ens("proposal_in_search_box", "implies(rows(ghost.zc) >= 1, forall(func_logger.D, lambda j: optim_state['lb_search'][0][j] <= result[0][j] and result[0][j] <= optim_state['ub_search'][0][j]))",
          top=True, props=["C18"])
    # C09: scalar indexing out of range raises IndexError in this function's semantics; no exception class other than the
    # ValueError for an unknown acquisition function may leave it - in particular not when every candidate was filtered out
    c.index_checks = True
    c.unbound_checks = True
    c.check_raises = True
    c.raise_props = ("C09", "C18")
    c.may_raise("ValueError")
