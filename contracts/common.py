"""Shared typing of the options / state paths (OPTIONS_WF of DESIGN 2.5)."""

INT_OPTS = ["max_iter", "max_fun_evals", "search_n_try", "max_poll_grid_number", "search_grid_number",
            "accelerate_mesh_steps", "tol_stall_iters", "noise_final_samples", "fun_eval_start", "search_mesh_expand",
            "search_mesh_increment", "init_mesh_size_integer", "restarts", "cache_size", "n_search_iter", "n_train_max",
            "n_train_min", "buffer_ntrain"]
REAL_OPTS = ["tol_fun", "tol_mesh", "tol_improvement", "forcing_exponent", "tol_noise", "tol_poi", "mesh_overflow_warning",
             "final_quantile", "hedge_gamma", "hedge_beta", "hedge_decay", "gp_radius"]
BOOL_OPTS = ["stobads", "sloppy_improvement", "accelerate_mesh", "complete_poll", "skip_poll_after_search",
             "search_size_locked", "opp_stobads", "consecutive_skipping", "poll_training", "force_poll_mesh", "acq_hedge",
             "hessian_update", "search_optimize", "uncertain_incumbent", "alternative_incumbent", "nonlinear_scaling"]
CONST_OPTS = {"poll_mesh_multiplier": 2.0, "improvement_quantile": 0.5, "search_grid_multiplier": 2}


def type_options(c, root="self.options"):
    for k in INT_OPTS:
        c.ints('%s["%s"]' % (root, k))
    for k in REAL_OPTS:
        c.reals('%s["%s"]' % (root, k))
    for k in BOOL_OPTS:
        c.bools('%s["%s"]' % (root, k))
    for k, v in CONST_OPTS.items():
        c.const('%s["%s"]' % (root, k), v)
    c.reals('%s["min_failed_poll_steps"]' % root, ext=True)
    return c


def type_bads_state(c):
    c.ints("self.mesh_size_integer", 'self.optim_state["search_size_integer"]', 'self.optim_state["iter"]',
           'self.optim_state["search_count"]', "self.search_success", "self.search_spree", "self.D",
           "self.function_logger.func_count", "self.function_logger.Xn", "self.function_logger.X_max_idx",
           "self.mesh_overflows", "self.last_skipped", 'self.optim_state["uncertainty_handling_level"]')
    c.reals("self.fval", "self.yval", "self.fsd", "self.sufficient_improvement", "self.mesh_size",
            'self.optim_state["mesh_size"]', 'self.optim_state["tol_mesh"]', 'self.optim_state["search_mesh_size"]',
            "self.search_mesh_size", 'self.optim_state["search_sufficient_improvement"]', "self.f_q_historic_improvement")
    c.bools("self.reset_gp", "self.gp_refitted_flag")
    c.arr("self.iteration_history['u']", 2, [None, "self.D"])
    for k in ("fval", "fsd", "yval", "func_count"):
        c.arr("self.iteration_history['%s']" % k, 1, [None])
    c.arr("self.iteration_history['x']", 2, [None, "self.D"])
    c.arr("self.u", 1, ["self.D"])
    c.arr("self.u_best", 1, ["self.D"])
    c.arr("self.lower_bounds", 2, [1, "self.D"], ext="lo")
    c.arr("self.upper_bounds", 2, [1, "self.D"], ext="hi")
    for k in ("lb", "lb_search"):
        c.arr('self.optim_state["%s"]' % k, 2, [1, "self.D"], ext="lo")
    for k in ("ub", "ub_search"):
        c.arr('self.optim_state["%s"]' % k, 2, [1, "self.D"], ext="hi")
    return c


def inv_bads(c, ensure=True):
    """Class invariant of BADS between public operations (established by __init__, preserved by every method under contract)."""
    from .function_logger import wf_at, log_types
    from .transformer import vt_types
    log_types(c, "self.function_logger")
    vt_types(c, "self.function_logger.variable_transformer")
    c.bools("ghost.cons_none")
    clauses = {
        "inv_logger_wf": wf_at("self.function_logger"),
        "inv_transformed": "truthy(self.function_logger.transform_variables) and self.function_logger.variable_transformer.D == self.function_logger.D "
                           "and self.function_logger.D == self.D",
        "inv_vt_order": "forall(self.D, lambda j: self.function_logger.variable_transformer.orig_lb[0][j] <= self.function_logger.variable_transformer.orig_ub[0][j])",
        "inv_cons_ghost": "isnone(self.non_box_cons) == ghost.cons_none",
        "inv_tol_mesh": "self.optim_state['tol_mesh'] > 0",
        "inv_he_level": "implies(truthy(self.function_logger.he_noise_flag), self.optim_state['uncertainty_handling_level'] == 2) and "
                        "self.optim_state['uncertainty_handling_level'] >= 0",
        "inv_var_transf": "self.var_transf.D == self.D and forall(self.D, lambda j: self.var_transf.orig_lb[0][j] <= self.var_transf.orig_ub[0][j])",
    }
    vt_types(c, "self.var_transf")
    for k, v in clauses.items():
        c.req(k, v)
        if ensure:
            c.ens(k, v)
    return clauses


FLG = "self.function_logger"


def INC(u, y):
    """The pair (u, y) is a logged evaluation."""
    return ("exists(%s.Xn + 1, lambda i: pteq(row(%s.X, i), pt(%s)) and %s.Y[i][0] == %s)" % (FLG, FLG, u, FLG, y))


def MIN(y):
    """No logged evaluation has a strictly lower value."""
    return "forall(%s.Xn + 1, lambda i: %s <= %s.Y[i][0])" % (FLG, y, FLG)


LOGMAP = "forall(%s.Xn + 1, lambda i: pteq(row(%s.X_orig, i), invt(row(%s.X, i))))" % (FLG, FLG, FLG)
DET = "self.optim_state['uncertainty_handling_level'] == 0 and not truthy(self.function_logger.he_noise_flag)"
NOHE = "not truthy(self.function_logger.he_noise_flag)"


LOG_GROWS = ("implies(" + NOHE + ", self.function_logger.Xn >= old(self.function_logger.Xn)) and forall(old(self.function_logger.Xn) + 1, lambda i: "
             "pteq(row(self.function_logger.X, i), row(old(self.function_logger.X), i)) and implies(" + NOHE + ", self.function_logger.Y[i][0] == old(self.function_logger.Y)[i][0]))")


def inv_c04(c, require=True, ensure=True, u="self.u_best", with_fsd=True):
    """C04 invariant of the deterministic incumbent: logged, minimal, estimate == observation, zero SD."""
    cl = {
        "c04_incumbent_logged": "implies(%s, %s)" % (DET, INC(u, "self.yval")),
        "c04_incumbent_minimal": "implies(%s, %s)" % (DET, MIN("self.yval")),
        "c04_estimate_is_observation": "implies(%s, self.fval == self.yval%s)" % (DET, " and self.fsd == 0" if with_fsd else ""),
        "c04_log_maps_back": LOGMAP,
    }
    for k, v in cl.items():
        if require:
            c.req(k, v, props=["C04", "C19"])
        if ensure:
            c.ens(k, v, top=(k != "c04_log_maps_back"), props=["C04", "C19"])
    return cl


def FEAS(u):
    return "feasx(invt(pt(%s)))" % u


LOGFEAS = "forall(%s.Xn + 1, lambda i: feasx(invt(row(%s.X, i))))" % (FLG, FLG)
HU = "self.iteration_history['u']"
HISTFEAS = "forall(rows(%s), lambda k: feasx(invt(row(%s, k))))" % (HU, HU)
H_ALIGNED = ("rows(self.iteration_history['fval']) == rows(%s) and rows(self.iteration_history['fsd']) == rows(%s) and "
             "rows(self.iteration_history['yval']) == rows(%s)" % (HU, HU, HU))


def inv_c02(c, require=True, ensure=True, u_best=True, u=True):
    cl = {"c02_log_feasible": LOGFEAS}
    if u_best:
        cl["c02_incumbent_feasible"] = FEAS("self.u_best")
    if u:
        cl["c02_current_point_feasible"] = FEAS("self.u")
    for k, v in cl.items():
        if require:
            c.req(k, v, props=["C02"])
        if ensure:
            c.ens(k, v, top=True, props=["C02"])
    return cl


HX = "self.iteration_history['x']"
HY = "self.iteration_history['yval']"
HFC = "self.iteration_history['func_count']"
HIST_PAIRS = ("rows(ghost.hidx) == rows(%s) and forall(rows(%s), lambda k: 0 <= ghost.hidx[k] and ghost.hidx[k] <= %s.Xn and "
              "pteq(row(%s.X, ghost.hidx[k]), row(%s, k)) and %s.Y[ghost.hidx[k]][0] == %s[k])" % (HU, HU, FLG, FLG, HU, FLG, HY))
HIST_PAIRS_EX = ("forall(rows(%s), lambda k: exists(%s.Xn + 1, lambda i: pteq(row(%s.X, i), row(%s, k)) and %s.Y[i][0] == %s[k]))" % (HU, FLG, FLG, HU, FLG, HY))
HIST_XMAP = "rows(%s) == rows(%s) and forall(rows(%s), lambda k: pteq(row(%s, k), invt(row(%s, k))))" % (HX, HU, HU, HX, HU)
HIST_FC = ("rows(%s) == rows(%s) and forall(rows(%s), lambda k: %s[k] <= %s.func_count) and "
           "forall(rows(%s), rows(%s), lambda a, b: implies(a <= b, %s[a] <= %s[b]))" % (HFC, HU, HFC, HFC, FLG, HFC, HFC, HFC, HFC))
