"""Shared typing of the options / state paths (OPTIONS_WF of DESIGN 2.5)."""

INT_OPTS = ["max_iter", "max_fun_evals", "search_n_try", "max_poll_grid_number", "search_grid_number",
            "accelerate_mesh_steps", "tol_stall_iters", "noise_final_samples", "fun_eval_start", "search_mesh_expand",
            "search_mesh_increment", "init_mesh_size_integer", "restarts", "cache_size", "n_search_iter", "n_train_max",
            "n_train_min", "buffer_ntrain"]
REAL_OPTS = ["tol_fun", "tol_mesh", "tol_improvement", "forcing_exponent", "tol_noise", "tol_poi", "mesh_overflow_warning",
             "final_quantile", "hedge_gamma", "hedge_beta", "hedge_decay", "gp_radius"]
BOOL_OPTS = ["stobads", "sloppy_improvement", "accelerate_mesh", "complete_poll", "skip_poll_after_search",
             "search_size_locked", "opp_stobads", "consecutive_skipping", "poll_training", "force_poll_mesh", "acq_hedge",
             "hessian_update", "search_optimize", "uncertain_incumbent", "alternative_incumbent", "nonlinear_scaling"]
CONST_OPTS = {"poll_mesh_multiplier": 2.0, "improvement_quantile": 0.5, "search_grid_multiplier": 2}


def type_options(c, root="self.options"):
    for k in INT_OPTS:
        c.ints('%s["%s"]' % (root, k))
    for k in REAL_OPTS:
        c.reals('%s["%s"]' % (root, k))
    for k in BOOL_OPTS:
        c.bools('%s["%s"]' % (root, k))
    for k, v in CONST_OPTS.items():
        c.const('%s["%s"]' % (root, k), v)
    c.reals('%s["min_failed_poll_steps"]' % root, ext=True)
    return c


def type_bads_state(c):
    c.ints("self.mesh_size_integer", 'self.optim_state["search_size_integer"]', 'self.optim_state["iter"]',
           'self.optim_state["search_count"]', "self.search_success", "self.search_spree", "self.D",
           "self.function_logger.func_count", "self.function_logger.Xn", "self.function_logger.X_max_idx",
           "self.mesh_overflows", "self.last_skipped", 'self.optim_state["uncertainty_handling_level"]')
    c.reals("self.fval", "self.yval", "self.fsd", "self.sufficient_improvement", "self.mesh_size",
            'self.optim_state["mesh_size"]', 'self.optim_state["tol_mesh"]', 'self.optim_state["search_mesh_size"]',
            "self.search_mesh_size", 'self.optim_state["search_sufficient_improvement"]', "self.f_q_historic_improvement")
    c.bools("self.reset_gp", "self.gp_refitted_flag")
    return c
