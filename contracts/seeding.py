from pyvc.contracts import contract

B = "pybads.bads.bads.BADS"


@contract(B + "._init_random_seed_", serves=["C07"])
def _(c):
    """The seed handed to NumPy's global generator is the user's option (as an integer) whenever one is given; the effect
    'seeds_rng' of this function is what the typestate scan orders before every draw."""
    c.typ("self.options['random_seed']", sort="int", nonnull=False)
    c.typ("self._random_seed", sort="int", nonnull=False)
    c.req("option_defined", "haskey(self.options, 'random_seed')", props=["C07"])  # every option of the ini files is a key of self.options
    c.mod("self._random_seed")
    c.ens("seed_recorded", "implies(not isnone(old(self.options['random_seed'])), not isnone(result) and result == old(self.options['random_seed']) and self._random_seed == result)",
          top=True, props=["C07"])
    c.ens("no_seed_no_reseed", "implies(isnone(old(self.options['random_seed'])), isnone(result) and isnone(self._random_seed))", top=True, props=["C07"])
