"""Sidecar contracts for acerbilab/pybads (nothing in /repo is annotated)."""
