from pyvc.contracts import contract

FL = "pybads.function_logger.function_logger.FunctionLogger"

LOG_FIELDS = ["self.func_count", "self.X", "self.X_orig", "self.Y", "self.Y_orig", "self.S", "self.X_flag", "self.n_evals",
              "self.fun_eval_time", "self.total_fun_eval_time", "self.Xn", "self.X_max_idx", "self.Y_max"]


@contract(FL + ".__call__", serves=["C03", "C10", "C12", "C01"])
def _(c):
    c.ints("self.func_count", "self.Xn", "self.X_max_idx", "self.D")
    c.ints("ghost.n_calls")
    c.arr("self.X_flag", 1, [None], "bool")
    c.mod(*LOG_FIELDS)
    c.mod("ghost.n_calls")
    c.result = {"tuple": [{"sort": "real"}, {"sort": "real", "maybe_none": True}, {"sort": "int", "maybe_none": True}]}
    # honest counting: exactly one more successful call is counted
    c.ens("count", "self.func_count == old(self.func_count) + 1", top=True, props=["C03", "C10"])
    c.ens("xn_monotone", "self.Xn >= old(self.Xn) and self.Xn <= old(self.Xn) + 1")
    c.ens("norecord_keeps_xn", "implies(not truthy(record_duplicate_data), self.Xn == old(self.Xn))")
    c.ens("one_target_call", "ghost.n_calls == old(ghost.n_calls) + 1", top=True, props=["C03"])
    c.ens("points_kept", "count_true(self.X_flag) >= old(count_true(self.X_flag))")
    c.may_raise("Exception")
