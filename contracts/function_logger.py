from pyvc.contracts import contract
from .transformer import vt_types

FL = "pybads.function_logger.function_logger.FunctionLogger"

LOG_FIELDS = ["self.func_count", "self.X", "self.X_orig", "self.Y", "self.Y_orig", "self.S", "self.X_flag", "self.n_evals",
              "self.fun_eval_time", "self.total_fun_eval_time", "self.Xn", "self.X_max_idx", "self.Y_max"]
REC_FIELDS = [f for f in LOG_FIELDS if f != "self.func_count"]


def log_types(c, root="self"):
    c.ints(root + ".func_count", root + ".Xn", root + ".X_max_idx", root + ".D", root + ".cache_count")
    c.bools(root + ".noise_flag", root + ".he_noise_flag", root + ".transform_variables")
    c.arr(root + ".X", 2, [None, root + ".D"])
    c.arr(root + ".X_orig", 2, [None, root + ".D"])
    for f in ("Y", "Y_orig", "S", "n_evals", "fun_eval_time"):
        c.arr("%s.%s" % (root, f), 2, [None, 1])
    c.arr(root + ".X_flag", 1, [None], "bool")
    c.reals(root + ".total_fun_eval_time")


def wf_at(root):
    return WF.replace("self.", root + ".")


ROWS_EQ = ("rows(self.X_orig) == rows(self.X) and rows(self.Y) == rows(self.X) and rows(self.Y_orig) == rows(self.X) and rows(self.X_flag) == rows(self.X) "
           "and rows(self.n_evals) == rows(self.X) and rows(self.fun_eval_time) == rows(self.X) and implies(truthy(self.noise_flag), rows(self.S) == rows(self.X))")
WF = (ROWS_EQ + " and self.func_count >= 0 and self.Xn >= -1 and self.Xn < rows(self.X) and self.X_max_idx == self.Xn and self.D >= 1 "
      "and forall(rows(self.X), lambda i: self.X_flag[i] == (i <= self.Xn)) and count_true(self.X_flag) == self.Xn + 1")


@contract(FL + ".__call__", serves=["C03", "C10", "C12", "C01", "C02"])
def _(c):
    log_types(c)
    c.ints("ghost.n_calls")
    c.bools("ghost.cons_none", "ghost.target_raised")
    c.arr("x", 1, ["self.D"])
    c.bools("record_duplicate_data")
    vt_types(c, "self.variable_transformer")
    c.req("wf", WF)
    c.req("transformed", "truthy(self.transform_variables)")
    c.req("vt_dim", "self.variable_transformer.D == self.D")
    c.req("inv_vt_order", "forall(self.D, lambda j: self.variable_transformer.orig_lb[0][j] <= self.variable_transformer.orig_ub[0][j])")
    # C02: the caller must hand over a point whose original-space image the user's constraint accepts
    c.req("feasible_point", "feasx(invt(pt(x)))", props=["C02"])
    c.mod(*LOG_FIELDS)
    c.mod("ghost.n_calls", "ghost.target_raised")
    c.result = {"tuple": [{"sort": "real"}, {"sort": "real", "maybe_none": True}, {"sort": "int", "maybe_none": True}]}
    c.check_raises = True
    # ---- call-site obligations on the single invocation of the user target ---------------------------------------
    c.callsite(".fun", {
        "target_arg_in_hard_box": "forall(self.D, lambda j: self.variable_transformer.orig_lb[0][j] <= arg[j] and arg[j] <= self.variable_transformer.orig_ub[0][j])",
        "target_arg_feasible": "feasx(pt(arg))",
        "target_arg_is_image_of_x": "pteq(pt(arg), invt(pt(x)))",
    }, top=["target_arg_in_hard_box", "target_arg_feasible"], props={"target_arg_in_hard_box": ("C01",), "target_arg_feasible": ("C02",), "target_arg_is_image_of_x": ("C01", "C02")})
    # ---- normal exit ----------------------------------------------------------------------------------------------
    c.ens("count", "self.func_count == old(self.func_count) + 1", top=True, props=["C03", "C10"])
    c.ens("one_target_call", "ghost.n_calls == old(ghost.n_calls) + 1", top=True, props=["C03"])
    c.ens("target_did_not_raise", "not truthy(ghost.target_raised)", top=True, props=["C10"])
    c.ens("xn_monotone", "self.Xn >= old(self.Xn) and self.Xn <= old(self.Xn) + 1")
    c.ens("norecord_keeps_xn", "implies(not truthy(record_duplicate_data), self.Xn == old(self.Xn))")
    c.ens("points_kept", "count_true(self.X_flag) >= old(count_true(self.X_flag))")
    c.ens("wf", WF)
    # ---- what the log holds afterwards (C12, used by C04/C19) ------------------------------------------------------
    c.ens("no_noise_always_new_row", "implies(truthy(record_duplicate_data) and not truthy(self.he_noise_flag), self.Xn == old(self.Xn) + 1)",
          props=["C04", "C12", "C19"])
    c.ens("new_row_is_the_observation", "implies(self.Xn == old(self.Xn) + 1, pteq(row(self.X, self.Xn), pt(x)) and "
          "pteq(row(self.X_orig, self.Xn), invt(pt(x))) and self.Y[self.Xn][0] == result[0] and self.Y_orig[self.Xn][0] == result[0] and result[2] == self.Xn)",
          top=True, props=["C04", "C12", "C19"])
    c.ens("earlier_points_never_change", "forall(old(self.Xn) + 1, lambda i: pteq(row(self.X, i), row(old(self.X), i)) "
          "and pteq(row(self.X_orig, i), row(old(self.X_orig), i)))", top=True, props=["C04", "C12", "C19"])
    c.ens("earlier_values_kept", "implies(self.Xn == old(self.Xn) + 1, forall(old(self.Xn) + 1, lambda i: "
          "self.Y[i][0] == old(self.Y)[i][0] and self.Y_orig[i][0] == old(self.Y_orig)[i][0]))",
          top=True, props=["C04", "C12", "C19"])
    c.ens("norecord_keeps_log", "implies(not truthy(record_duplicate_data), self.Xn == old(self.Xn) and same(self.X, old(self.X)) and same(self.X_orig, old(self.X_orig)) "
          "and same(self.Y, old(self.Y)) and same(self.Y_orig, old(self.Y_orig)) and forall(self.Xn + 1, lambda i: pteq(row(self.X, i), row(old(self.X), i)) "
          "and pteq(row(self.X_orig, i), row(old(self.X_orig), i))))", top=True, props=["C04", "C12", "C19", "C05"])
    c.ens("recorded_means_nonempty", "implies(truthy(record_duplicate_data), self.Xn >= 0)")
    # ---- C05: what the caller gets back is what the target returned at this call, at the image of x --------------
    c.ens("returns_this_calls_value", "implies(self.Xn == old(self.Xn) + 1 or not truthy(record_duplicate_data), result[0] == retval(ghost.n_calls))",
          top=True, props=["C05", "C12"])
    c.ens("returns_this_calls_sd", "implies(truthy(self.he_noise_flag), result[1] == retsd(ghost.n_calls))", top=True, props=["C05", "C15"])
    # C10: an evaluation is accepted (counted, logged, returned) only with a positive reported SD when noise is specified
    c.ens("accepted_sd_is_positive", "implies(truthy(self.he_noise_flag), result[1] > 0 and retsd(ghost.n_calls) > 0)", top=True, props=["C10"])
    c.ens("called_at_image_of_x", "pteq(argpt(ghost.n_calls), invt(pt(x)))", top=True, props=["C05", "C01", "C02", "C15"])
    c.ens("he_flag_kept", "truthy(self.he_noise_flag) == truthy(old(self.he_noise_flag))")
    # ---- exceptional exits (C10): the target's own exception, or ValueError for an invalid value -----------------------
    XENS = {"not_counted": "self.func_count == old(self.func_count)", "calls": "ghost.n_calls >= old(ghost.n_calls) and ghost.n_calls <= old(ghost.n_calls) + 1",
            "xn": "self.Xn == old(self.Xn) and count_true(self.X_flag) == old(count_true(self.X_flag))"}
    c.may_raise("TargetError", ensures=dict(XENS, flag="truthy(ghost.target_raised)"))
    c.may_raise("ValueError", ensures=dict(XENS, flag="not truthy(ghost.target_raised)"))
    c.may_raise("AssertionError", ensures=dict(XENS, flag="not truthy(ghost.target_raised)"))
    c.req("no_pending_failure", "not truthy(ghost.target_raised)", props=["C10"])
    c.exc_class_when("TargetError", "truthy(ghost.target_raised)", "target_exception_propagates_unchanged", props=["C10"])
    c.exc_ens("failed_call_not_counted", "self.func_count == old(self.func_count)", top=True, props=["C10"])
    c.exc_ens("nothing_logged", "self.Xn == old(self.Xn) and same(self.Y, old(self.Y)) and same(self.X, old(self.X)) and same(self.X_flag, old(self.X_flag))",
              top=True, props=["C10"])
    c.exc_ens("at_most_one_target_call", "ghost.n_calls <= old(ghost.n_calls) + 1 and ghost.n_calls >= old(ghost.n_calls)", top=True, props=["C10"])
    c.exc_ens("points_kept", "count_true(self.X_flag) == old(count_true(self.X_flag))")


@contract(FL + "._record", serves=["C12"])
def _(c):
    log_types(c)
    c.arr("x", 1, ["self.D"])
    c.arr("x_orig", 1, ["self.D"])
    c.reals("fval_orig", "fun_eval_time")
    c.typ("fsd", sort="real")   # may be None
    c.bools("record_duplicate_data")
    c.req("wf", WF)
    c.assume_("nan_tail", "forall(rows(self.X), lambda i: implies(i > self.Xn, exists(self.D, lambda j: self.X[i][j] != x[j])))",
              "unused log rows are NaN (np.full(..., nan) at construction and growth) and never compare equal to a point; NaN is not modelled for X "
              "(real-valued rows), so this is assumed; bounded-checked by replay/logger_model.py")
    c.ens("recorded_means_nonempty", "implies(truthy(record_duplicate_data), self.Xn >= 0)")
    c.mod(*REC_FIELDS)
    c.result = {"tuple": [{"sort": "real"}, {"sort": "int", "maybe_none": True}]}
    c.ens("wf", WF)
    c.ens("xn_monotone", "self.Xn >= old(self.Xn) and self.Xn <= old(self.Xn) + 1")
    c.ens("norecord_keeps_log", "implies(not truthy(record_duplicate_data), self.Xn == old(self.Xn) and same(self.X, old(self.X)) and "
          "same(self.X_orig, old(self.X_orig)) and same(self.Y, old(self.Y)) and same(self.Y_orig, old(self.Y_orig)) and same(self.X_flag, old(self.X_flag)) "
          "and result[0] == fval_orig and forall(self.Xn + 1, lambda i: pteq(row(self.X, i), row(old(self.X), i)) and pteq(row(self.X_orig, i), row(old(self.X_orig), i))))",
          top=True, props=["C12"])
    c.ens("points_kept", "count_true(self.X_flag) >= old(count_true(self.X_flag))")
    c.ens("norecord_keeps_xn", "implies(not truthy(record_duplicate_data), self.Xn == old(self.Xn))")
    c.ens("new_point_recorded", "implies(self.Xn == old(self.Xn) + 1, "
          "forall(self.D, lambda j: self.X[self.Xn][j] == x[j] and self.X_orig[self.Xn][j] == x_orig[j]) and self.Y[self.Xn][0] == fval_orig "
          "and self.Y_orig[self.Xn][0] == fval_orig and result[0] == fval_orig and result[1] == self.Xn and self.n_evals[self.Xn][0] >= 1)",
          top=True, props=["C12"])
    c.ens("other_records_untouched_by_new_point", "implies(self.Xn == old(self.Xn) + 1, "
          "forall(old(self.Xn) + 1, self.D, lambda i, j: self.X[i][j] == old(self.X)[i][j] and self.X_orig[i][j] == old(self.X_orig)[i][j]) and "
          "forall(old(self.Xn) + 1, lambda i: self.Y[i][0] == old(self.Y)[i][0] and self.Y_orig[i][0] == old(self.Y_orig)[i][0] "
          "and self.n_evals[i][0] == old(self.n_evals)[i][0]))", top=True, props=["C12"])


    c.ens("no_noise_always_new_row", "implies(truthy(record_duplicate_data) and isnone(fsd), self.Xn == old(self.Xn) + 1)", props=["C04", "C12", "C19"])
    c.ens("new_row_points", "implies(self.Xn == old(self.Xn) + 1, pteq(row(self.X, self.Xn), pt(x)) and pteq(row(self.X_orig, self.Xn), pt(x_orig)))",
          props=["C04", "C12", "C19"])
    c.ens("earlier_rows_points_kept", "forall(old(self.Xn) + 1, lambda i: "
          "pteq(row(self.X, i), row(old(self.X), i)) and pteq(row(self.X_orig, i), row(old(self.X_orig), i)))", props=["C04", "C12", "C19"])
    c.ens("partial_coincidence_never_alters_other_records",
          "implies(truthy(record_duplicate_data) and self.Xn == old(self.Xn), forall(rows(old(self.X)), lambda i: implies("
          "exists(self.D, lambda j: old(self.X)[i][j] != x[j]), self.Y[i][0] == old(self.Y)[i][0] and self.Y_orig[i][0] == old(self.Y_orig)[i][0] "
          "and self.n_evals[i][0] == old(self.n_evals)[i][0] and implies(truthy(self.noise_flag), self.S[i][0] == old(self.S)[i][0]))))",
          top=True, props=["C12"])
    c.ens("merge_keeps_coordinates", "implies(self.Xn == old(self.Xn), same(self.X, old(self.X)) and same(self.X_orig, old(self.X_orig)) "
          "and same(self.X_flag, old(self.X_flag)) and same(self.Y_orig, old(self.Y_orig)))", top=True, props=["C12"])


@contract(FL + "._expand_arrays", serves=["C12"])
def _(c):
    log_types(c)
    c.typ("resize_amount", sort="int")
    c.req("xn", "self.Xn >= 0")
    c.req("rows_eq", ROWS_EQ)
    c.req("amount", "isnone(resize_amount) or resize_amount >= 1")
    c.mod("self.X", "self.X_orig", "self.Y", "self.Y_orig", "self.S", "self.X_flag", "self.fun_eval_time", "self.n_evals")
    c.ens("grows", "rows(self.X) >= rows(old(self.X)) + 1 and rows(self.X_orig) == rows(self.X) and rows(self.Y) == rows(self.X) and "
          "rows(self.Y_orig) == rows(self.X) and rows(self.X_flag) == rows(self.X) and rows(self.n_evals) == rows(self.X) and rows(self.fun_eval_time) == rows(self.X)"
          " and implies(truthy(self.noise_flag), rows(self.S) == rows(self.X))",
          top=True, props=["C12"])
    c.ens("prefix_preserved", "forall(rows(old(self.X)), self.D, lambda i, j: self.X[i][j] == old(self.X)[i][j] and self.X_orig[i][j] == old(self.X_orig)[i][j]) and "
          "forall(rows(old(self.X)), lambda i: self.Y[i][0] == old(self.Y)[i][0] and self.Y_orig[i][0] == old(self.Y_orig)[i][0] and "
          "self.n_evals[i][0] == old(self.n_evals)[i][0] and self.X_flag[i] == old(self.X_flag)[i])", top=True, props=["C12"])
    c.ens("prefix_points_preserved", "forall(rows(old(self.X)), lambda i: pteq(row(self.X, i), row(old(self.X), i)) and pteq(row(self.X_orig, i), row(old(self.X_orig), i)))",
          props=["C04", "C12", "C19"])
    c.ens("new_rows_unflagged", "forall(rows(self.X), lambda i: implies(i >= rows(old(self.X)), not self.X_flag[i] and self.n_evals[i][0] == 0))", props=["C12"])
    c.ens("count_kept", "count_true(self.X_flag) == old(count_true(self.X_flag))")


@contract(FL + ".__init__", serves=["C12"])
def _(c):
    """The constructor establishes the log's well-formedness invariant (which every other method under contract assumes and keeps):
    empty log, equal array lengths, no row flagged, nothing counted."""
    log_types(c)
    c.ints("D", "cache_size", "uncertainty_handling_level")
    c.bools("noise_flag")
    c.req("sizes", "D >= 1 and cache_size >= 1", props=["C12"])
    c.mod_prefix("self")
    c.ens("log_well_formed_and_empty", WF + " and self.Xn == -1 and self.func_count == 0 and self.D == D and rows(self.X) == cache_size", top=True, props=["C12"])
    c.ens("noise_mode_recorded", "truthy(self.noise_flag) == truthy(noise_flag) and truthy(self.he_noise_flag) == (uncertainty_handling_level == 2) and "
          "truthy(self.transform_variables) == (not isnone(variable_transformer))", props=["C12"])
