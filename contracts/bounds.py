from pyvc.contracts import contract

B = "pybads.bads.bads.BADS"

# per-coordinate view of the definition handed to _bounds_check_ (one start point; plausible bounds default to the hard ones)
L, U, X = "lower_bounds[0][j]", "upper_bounds[0][j]", "x0[0][j]"
P = "ite(isnone(plausible_lower_bounds), %s, plausible_lower_bounds[0][j])" % L
Q = "ite(isnone(plausible_upper_bounds), %s, plausible_upper_bounds[0][j])" % U
DIMS_OK = ("cols(lower_bounds) == cols(x0) and cols(upper_bounds) == cols(x0) and implies(not isnone(plausible_lower_bounds), cols(plausible_lower_bounds) == cols(x0)) "
           "and implies(not isnone(plausible_upper_bounds), cols(plausible_upper_bounds) == cols(x0))")
VALID_J = ("isfinite({P}) and isfinite({Q}) and {L} <= {P} and {P} < {Q} and {Q} <= {U} and (isnan({X}) or ({L} <= {X} and {X} <= {U})) "
           "and (isfinite({L}) == isfinite({U}))").format(L=L, U=U, P=P, Q=Q, X=X)
# hard bounds next to the smallest normal float are treated by the code as zero: carved out of the 'raises only if invalid' direction
DENORMAL_J = "((abs({L}) <= RM and {L} != 0) or (abs({U}) <= RM and {U} != 0)) and isfinite({L}) and isfinite({U})".format(L=L, U=U)
# plausible interval that does not survive being moved 0.1% of the hard range away from finite hard bounds (known finding:
# such definitions are valid by the property statement but rejected with bads:StrictBounds)
MARGIN_J = ("isfinite({L}) and isfinite({U}) and isfinite({P}) and isfinite({Q}) and "
            "max({P}, {L} + 0.001 * ({U} - {L})) >= min({Q}, {U} - 0.001 * ({U} - {L}))").format(L=L, U=U, P=P, Q=Q)
VALID = "old((" + DIMS_OK + ") and forall(cols(x0), lambda j: " + VALID_J + "))"
INVALID_OR_DENORMAL = "old(not (" + DIMS_OK + ") or exists(cols(x0), lambda j: not (" + VALID_J + ") or (" + DENORMAL_J + ")))"
INVALID_OR_DENORMAL_OR_MARGIN = "old(not (" + DIMS_OK + ") or exists(cols(x0), lambda j: not (" + VALID_J + ") or (" + DENORMAL_J + ") or (" + MARGIN_J + ")))"


def bounds_contract(c, D):
    """Validation of a problem definition already brought to array form by __init__ (x0: 1 x D, bounds: 1 x W each;
    plausible bounds present or None): ValueError exactly for invalid definitions, normalised result otherwise."""
    c.arr("x0", 2, [1, D], ext=True)
    c.arr("lower_bounds", 2, [1, D], ext=True)
    c.arr("upper_bounds", 2, [1, D], ext=True)
    c.arr("plausible_lower_bounds", 2, [1, D], ext=True, nonnull=False)
    c.arr("plausible_upper_bounds", 2, [1, D], ext=True, nonnull=False)
    c.let(RM="2.2250738585072014e-308")
    c.req("one_start_point", "rows(x0) == 1 and cols(x0) >= 1", props=["C08"])
    c.req("no_constraint_function", "isnone(non_box_cons)", props=["C08"])
    c.req("start_point_given_or_omitted_as_a_whole", "forall(cols(x0), lambda j: isnan(x0[0][j]) == isnan(x0[0][0]))", props=["C08"])
    c.mod()
    c.check_raises = True
    c.raise_props = ("C08",)
    c.may_raise("ValueError", when="True", ensures={"raises_only_for_invalid_definitions_outside_margin_zone": INVALID_OR_DENORMAL_OR_MARGIN,
                                                    "raises_only_for_invalid_definitions": INVALID_OR_DENORMAL})
    c.ens("accepted_definitions_are_valid", VALID, top=True, props=["C08"])
    c.ens("normalised_order", "forall(old(cols(x0)), lambda j: result[1][0][j] <= result[3][0][j] and result[3][0][j] < result[4][0][j] and result[4][0][j] <= result[2][0][j])",
          top=True, props=["C08"])
    c.ens("hard_bounds_unchanged", "forall(old(cols(x0)), lambda j: same(result[1][0][j], old(lower_bounds[0][j])) and same(result[2][0][j], old(upper_bounds[0][j])))", top=True, props=["C08"])
    c.ens("start_point_strictly_inside_finite_hard_bounds", "forall(old(cols(x0)), lambda j: implies(isfinite(old(lower_bounds[0][j])) and not isnan(old(x0[0][j])) and not old(" + DENORMAL_J + "), "
          "old(lower_bounds[0][j]) < result[0][0][j] and result[0][0][j] < old(upper_bounds[0][j])))", top=True, props=["C08"])


# the property quantifies over D = 1..3: one instance of the contract per dimension (literal shapes: every quantifier over
# coordinates unrolls and the queries are quantifier-free).  Width mismatches are covered by the bounded layer.
for _D in (1, 2, 3):
    contract(B + "._bounds_check_#D%d" % _D, serves=["C08"], mode="ext")(lambda c, _D=_D: bounds_contract(c, _D))
