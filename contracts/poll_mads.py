from pyvc.contracts import contract

PM = "pybads.poll.poll_mads_2n.poll_mads_2n"


@contract(PM, serves=["C14", "C02", "C09"])
def _(c):
    c.ints("dim_x")
    c.arr("poll_scale", 1, ["dim_x"])
    c.reals("search_mesh_size", "mesh_size")
    c.req("dim", "dim_x >= 1")
    c.req("meshes", "search_mesh_size > 0 and mesh_size > 0")
    c.req("scale_nonzero", "forall(dim_x, lambda j: poll_scale[j] != 0)", props=["C14"])
    c.prune_branches = True   # `if n_max > 0` has a dead else-branch (n_max >= 1) that would give D a different rank
    c.mod("ghost.L", "ghost.P")
    c.result = {"arrspec": (2, ["2 * dim_x", "dim_x"], "num", False)}
    # ---- structural obligations that connect the code to the Lean lemma (lemmas/Ltmads.lean) ---------------------------
    c.lemma_at("n_max = np.maximum(1, np.round(search_mesh_size / mesh_size))", {
        "n_max_integer_ge_1": "n_max >= 1 and isint(n_max)",
        "default_mesh_ratio_gives_one": "implies(search_mesh_size <= mesh_size, n_max == 1)"}, props=["C14"])
    c.lemma_at("D = D + np.eye(dim_x) * diag", {
        "lower_triangular": "forall(dim_x, dim_x, lambda r, k: implies(k > r, D[r][k] == 0))",
        "diagonal_plus_minus_n_max": "forall(dim_x, lambda r: D[r][r] == n_max or D[r][r] == -n_max)",
        "entries_bounded": "forall(dim_x, dim_x, lambda r, k: implies(k < r, 1 - n_max <= D[r][k] and D[r][k] <= n_max - 1))"},
        props=["C14"])
    c.hook("D = D + np.eye(dim_x) * diag", {"ghost.L": "D"})
    c.lemma_at("D = np.transpose(rnd.permutation(D))", {
        "transposed_row_permutation": "forall(dim_x, dim_x, lambda i, j: 0 <= colperm(D, j) and colperm(D, j) < dim_x and D[i][j] == ghost.L[colperm(D, j)][i])"},
        props=["C14"])
    c.hook("D = np.transpose(rnd.permutation(D))", {"ghost.P": "D"})
    c.ens("first_half_is_scaled_basis", "forall(dim_x, dim_x, lambda i, j: result[i][j] * poll_scale[j] == ghost.P[i][j])", top=True, props=["C14"])
    c.ens("default_settings_signed_coordinate_directions", "implies(search_mesh_size <= mesh_size, forall(dim_x, dim_x, lambda r, k: "
          "ghost.L[r][k] == ite(r == k, ghost.L[r][r], 0) and (ghost.L[r][r] == 1 or ghost.L[r][r] == -1)))", top=True, props=["C14"])
    c.ens("shape_2D_by_D", "rows(result) == 2 * dim_x and cols(result) == dim_x", top=True, props=["C14"])
    # {+d_1..+d_D, -d_1..-d_D}: the second half is the negated first half
    c.ens("second_half_negated", "forall(dim_x, dim_x, lambda i, j: result[dim_x + i][j] == -result[i][j])", top=True, props=["C14"])
