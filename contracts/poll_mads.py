from pyvc.contracts import contract

PM = "pybads.poll.poll_mads_2n.poll_mads_2n"


@contract(PM, serves=["C14", "C02", "C09"])
def _(c):
    c.ints("dim_x")
    c.arr("poll_scale", 1, ["dim_x"])
    c.reals("search_mesh_size", "mesh_size")
    c.req("dim", "dim_x >= 1")
    c.req("meshes", "search_mesh_size > 0 and mesh_size > 0")
    c.req("scale_nonzero", "forall(dim_x, lambda j: poll_scale[j] > 0)", props=["C14"])
    c.mod()
    c.result = {"arrspec": (2, ["2 * dim_x", "dim_x"], "num", False)}
    c.ens("shape_2D_by_D", "rows(result) == 2 * dim_x and cols(result) == dim_x", top=True, props=["C14"])
    # {+d_1..+d_D, -d_1..-d_D}: the second half is the negated first half
    c.ens("second_half_negated", "forall(dim_x, dim_x, lambda i, j: result[dim_x + i][j] == -result[i][j])", top=True, props=["C14"])
