from pyvc.contracts import contract
from .function_logger import log_types, wf_at
from .transformer import vt_types

GPT = "pybads.bads.gaussian_process_train"


@contract(GPT + ".local_gp_fitting", serves=["C14", "C15", "C16"])
def _(c):
    """C16: a failing hyper-parameter refit is absorbed by _robust_gp_fit_, a failing posterior update (gp.update) is caught and
    the previous priors / hyper-parameters restored; no exception class leaves the function.
    C14 uses one ASSUMED clause (poll scale entries are non-zero: exp of length scales divided by their geometric mean,
    clipped below by the positive search mesh size) - checked on real runs by the bounded panel only."""
    c.ints("ghost.fault_budget", "function_logger.D")
    c.arr("gp.temporary_data['poll_scale']", 1, ["function_logger.D"])
    c.req("fewer_than_ten_failures_in_a_row", "ghost.fault_budget >= 0 and ghost.fault_budget < 10", props=["C16"])
    log_types(c, "function_logger")
    c.arr("gp.s2", 2, [None, 1], nonnull=False)
    c.req("logger_wf", wf_at("function_logger") + " and function_logger.X_max_idx >= 0", props=["C16"])
    c.req("train_sizes", "options['n_train_min'] >= 1 and options['n_train_max'] >= 1 and options['buffer_ntrain'] >= 0", props=["C16"])
    c.ints("options['n_train_max']", "options['n_train_min']", "options['buffer_ntrain']")
    c.req("no_noise_vector_without_noise", "implies(not truthy(function_logger.noise_flag), isnone(gp.s2))", props=["C16"])
    c.mod_prefix("gp")
    c.mod("ghost.fault_budget", "ghost.dist", "options['gp_mean_range_fun']", "optim_state['ntrain']", "optim_state['second_fit']",
          "iteration_history['init_N']", "iteration_history['ntrain']")
    c.check_raises = True
    c.raise_props = ("C16",)
    c.ens_assumed("poll_scale_nonzero", "forall(function_logger.D, lambda j: gp.temporary_data['poll_scale'][j] != 0)",
                  "numerics of gpyreg hyper-parameters (exp > 0, clipped below by search_mesh_size > 0); bounded-checked by replay/panel.py (C14 monitor)", props=["C14"])
    c.ens("refit_failures_absorbed", "ghost.fault_budget >= 0 and ghost.fault_budget <= old(ghost.fault_budget)", top=True, props=["C16"])
    c.result = {"tuple": [{"param": "gp"}, {"sort": "real"}]}


@contract(GPT + ".add_and_update_gp", serves=["C14", "C15"])
def _(c):
    """The GP handed in is the GP handed back; its training set grows by exactly the pair handed in (noise as a variance);
    gp.update (gpyreg, T4) recomputes the posterior only."""
    c.ints("function_logger.D")
    c.arr("gp.X", 2, [None, "function_logger.D"])
    c.arr("gp.y", 2, [None, 1])
    c.arr("gp.s2", 2, [None, 1], nonnull=False)
    c.arr("x_new", 1, ["function_logger.D"])
    c.reals("y_new")
    c.typ("sd_new", sort="real", nonnull=False)
    c.bools("options['specify_target_noise']")
    c.req("rows_agree", "rows(gp.y) == rows(gp.X) and implies(not isnone(gp.s2), rows(gp.s2) == rows(gp.X))", props=["C15"])
    c.req("noise_vector_present_when_specified", "implies(truthy(options['specify_target_noise']) and not isnone(sd_new), not isnone(gp.s2))", props=["C15"])
    # C15 at the call sites (search and poll step): the pair handed in is the evaluation the logger has just made -
    # the point of the latest target call and, with supplied noise, the SD the target reported at that call
    c.req("pair_is_the_latest_evaluation", "pteq(invt(pt(x_new)), argpt(ghost.n_calls)) and "
          "implies(truthy(function_logger.he_noise_flag) and not isnone(sd_new), sd_new == retsd(ghost.n_calls))", props=["C15"])
    c.ints("ghost.n_calls")
    c.bools("function_logger.he_noise_flag")
    vt_types(c, "function_logger.variable_transformer")
    c.mod("gp.X", "gp.y", "gp.s2", "gp.posteriors")
    c.result = {"param": "gp"}
    c.ens("appends_exactly_the_new_pair", "rows(gp.X) == old(rows(gp.X)) + 1 and rows(gp.y) == rows(gp.X) and "
          "pteq(row(gp.X, rows(gp.X) - 1), pt(x_new)) and gp.y[rows(gp.y) - 1][0] == y_new", top=True, props=["C15"])
    c.ens("earlier_pairs_kept", "forall(old(rows(gp.X)), lambda k: pteq(row(gp.X, k), old(row(gp.X, k))) and gp.y[k][0] == old(gp.y[k][0]))", top=True, props=["C15"])
    c.ens("supplied_noise_enters_as_variance", "implies(truthy(options['specify_target_noise']) and not isnone(sd_new), "
          "rows(gp.s2) == rows(gp.X) and gp.s2[rows(gp.s2) - 1][0] == sd_new * sd_new and forall(old(rows(gp.s2)), lambda k: gp.s2[k][0] == old(gp.s2[k][0])))",
          top=True, props=["C15"])


# ---------------------------------------------------------------------------------------------------------------------
# C15: the GP training set is made of logged evaluations, nearest first, with supplied noise as a variance
# ---------------------------------------------------------------------------------------------------------------------

GN = GPT + ".get_grid_search_neighbors"
LOGGED = ("exists(rows(function_logger.X), lambda i: i <= function_logger.X_max_idx and pteq(row(result[0], k), row(function_logger.X, i)) and "
          "result[1][k][0] == function_logger.Y[i][0] and implies(truthy(function_logger.noise_flag), result[2][k][0] == function_logger.S[i][0] * function_logger.S[i][0]))")


@contract(GN, serves=["C15"])
def _(c):
    log_types(c, "function_logger")
    c.ints("options['n_train_max']", "options['n_train_min']", "options['buffer_ntrain']")
    c.reals("options['gp_radius']", "gp.temporary_data['effective_radius']")
    c.req("logger_wf", wf_at("function_logger"), props=["C15", "C16"])
    c.req("some_point_logged", "function_logger.X_max_idx >= 0", props=["C15", "C16"])
    c.req("train_sizes", "options['n_train_min'] >= 1 and options['n_train_max'] >= 1 and options['buffer_ntrain'] >= 0", props=["C15", "C16"])
    c.mod("optim_state['ntrain']")
    # the metric itself (udist: periodic wrap, length scales) is outside the clauses: its value vector is named by a ghost
    c.opaque_stmt("dist = udist(")
    c.arr("dist", 1, ["function_logger.X_max_idx + 1"], nonnull=True)
    c.arr("ghost.dist", 1, ["function_logger.X_max_idx + 1"])
    c.hook("sort_idx = np.argsort(dist)", {"ghost.dist": "dist"})
    c.mod("ghost.dist")
    c.let(n="function_logger.X_max_idx + 1", nmax="options['n_train_max']", nmin="options['n_train_min']", buf="options['buffer_ntrain']",
          r2="(options['gp_radius'] * gp.temporary_data['effective_radius']) * (options['gp_radius'] * gp.temporary_data['effective_radius'])")
    c.result = {"tuple": [{"arrspec": (2, [None, "function_logger.D"], "num", False)}, {"arrspec": (2, [None, 1], "num", False)}, {"arrspec": (2, [None, 1], "num", False), "maybe_none": True}]}
    c.ens("training_pairs_are_logged_evaluations", "forall(rows(result[0]), lambda k: " + LOGGED + ")", top=True, props=["C15"])
    c.ens("one_value_per_input", "rows(result[1]) == rows(result[0]) and implies(truthy(function_logger.noise_flag), rows(result[2]) == rows(result[0])) and "
          "implies(not truthy(function_logger.noise_flag), isnone(result[2])) and implies(truthy(function_logger.noise_flag), not isnone(result[2]))", top=True, props=["C15", "C16"])
    c.ens("ordered_by_distance", "forall(rows(result[0]), rows(result[0]), lambda a, b: implies(a < b, ghost.dist[sort_idx[a]] <= ghost.dist[sort_idx[b]])) and "
          "forall(rows(result[0]), lambda k: pteq(row(result[0], k), row(function_logger.X, sort_idx[k])))", top=True, props=["C15"])
    c.ens("nearest_points_selected", "forall(n, lambda i: implies(argsort_rank(sort_idx, i) >= rows(result[0]), "
          "forall(rows(result[0]), lambda k: ghost.dist[sort_idx[k]] <= ghost.dist[i])))", top=True, props=["C15"])
    c.ens("size_respects_configured_minimum_and_maximum",
          "rows(result[0]) <= n and rows(result[0]) >= min(n, nmin) and rows(result[0]) >= min(n, nmax - buf) and rows(result[0]) <= max(nmax, nmin)", top=True, props=["C15"])


@contract(GPT + "._get_fevals_data", serves=["C15"])
def _(c):
    log_types(c, "function_logger")
    c.req("logger_wf", wf_at("function_logger"), props=["C15"])
    c.mod()
    c.ens("initial_training_pairs_are_logged_evaluations",
          "forall(rows(result[0]), lambda k: exists(rows(function_logger.X), lambda i: function_logger.X_flag[i] and pteq(row(result[0], k), row(function_logger.X, i)) and "
          "result[1][k][0] == function_logger.Y[i][0] and implies(truthy(function_logger.noise_flag), result[2][k][0] == function_logger.S[i][0] * function_logger.S[i][0])))",
          top=True, props=["C15"])
    c.ens("all_logged_points_used", "rows(result[0]) == count_true(function_logger.X_flag) and rows(result[1]) == rows(result[0])", top=True, props=["C15"])
    c.ens("no_noise_no_variance", "implies(not truthy(function_logger.noise_flag), isnone(result[2]))", props=["C15"])


# ---------------------------------------------------------------------------------------------------------------------
# C16: a failing hyper-parameter fit is retried / falls back; the retry loop always hands gpyreg a consistent training set
# ---------------------------------------------------------------------------------------------------------------------
@contract(GPT + "._robust_gp_fit_", serves=["C16"])
def _(c):
    c.ints("ghost.fault_budget", "options['remove_points_after_tries']")
    c.arr("x_train", 2, [None, None])
    c.arr("y_train", 2, [None, 1])
    c.arr("s2_train", 2, [None, 1], nonnull=False)
    c.arr("X", 2, [None, None])
    c.arr("Y", 2, [None, 1])
    c.arr("s2", 2, [None, 1], nonnull=False)
    c.req("fewer_than_ten_failures_in_a_row", "ghost.fault_budget >= 0 and ghost.fault_budget < 10", props=["C16"])
    c.req("training_set_consistent", "rows(y_train) == rows(x_train) and implies(not isnone(s2_train), rows(s2_train) == rows(x_train))", props=["C16"])
    c.mod_prefix("gp")
    c.mod("ghost.fault_budget")
    c.check_raises = True
    c.raise_props = ("C16",)  # no exception class may leave the function (LinAlgError from GP.fit is caught on every path)
    c.unbound_checks = True  # reading a local that is unbound on the path raises UnboundLocalError (res after ten failures)
    c.shape_checks = True  # np.logical_or of two masks of different lengths raises inside NumPy (broadcast error)
    c.loop(0, invariants={
        "c16_every_pass_consumed_a_failure": "ghost.fault_budget == old(ghost.fault_budget) - i_try and ghost.fault_budget >= 0",
        "c16_training_set_stays_consistent": "rows(Y) == rows(X) and implies(not isnone(s2), rows(s2) == rows(X))",
    }, props=["C16"])
    c.ens("returns_normally_with_a_fit_result", "ghost.fault_budget >= 0 and ghost.fault_budget <= old(ghost.fault_budget)", top=True, props=["C16"])


@contract(GPT + ".init_and_train_gp", serves=["C16"])
def _(c):
    """Initial training: the retry loop ends (each failure consumes the fault budget, a success leaves the loop) and no
    exception class leaves it.  Everything before / after the loop is gpyreg set-up code (T4: non-raising externals)."""
    c.ints("ghost.fault_budget")
    c.req("finitely_many_failures", "ghost.fault_budget >= 0", props=["C16"])
    c.mod("ghost.fault_budget")
    c.mod_prefix("hyp_dict")
    c.mod("iteration_history['init_N']", "iteration_history['ntrain']")
    c.opaque_stmt("hyp0 = np.empty(", "hyp0 = np.concatenate(", "hyp0 = hyp0[", "hyp0 = np.unique(")  # starting points of the optimiser: values irrelevant here
    c.bools("fitted")
    c.ints("training_failures")
    c.check_raises = True
    c.raise_props = ("C16",)
    # ValueError is raised by the set-up code for unknown mean / covariance names, before any fit (the budget is untouched);
    # a LinAlgError (a ValueError subclass) escaping from a fit would have consumed one unit
    c.may_raise("ValueError", when="True", ensures={"raised_before_any_fit": "ghost.fault_budget == old(ghost.fault_budget)"})
    c.loop(1, invariants={
        "c16_budget_nonnegative": "ghost.fault_budget >= 0 and training_failures >= 0",
    }, variant=["ite(fitted, 0, 1)", "ghost.fault_budget"], props=["C16"])
    c.ens("initial_training_completes", "ghost.fault_budget >= 0", top=True, props=["C16"])
