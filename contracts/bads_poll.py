from pyvc.contracts import contract
from .common import type_options, type_bads_state, inv_bads, inv_c04, INC, MIN, LOGMAP, DET, LOG_GROWS, inv_c02, FEAS, LOGFEAS
from .bads_optimize import c10
from .function_logger import wf_at

B = "pybads.bads.bads.BADS"


@contract(B + "._poll_step_", serves=["C13", "C03"])
def _(c):
    type_options(c)
    type_bads_state(c)
    inv_bads(c)
    c.ints("ghost.n_calls")
    c.empty_reduce_checks = True  # C09: np.argmin over an empty poll set is an internal ValueError
    c.arr("self.function_logger.X_flag", 1, [None], "bool")
    c.arr("u_poll", 2, [None, "self.D"], nonnull=False)
    c.arr("B", 2, [None, "self.D"], nonnull=False)
    c.arr("gp.temporary_data['poll_scale']", 1, ["self.D"])
    c.typ("gp", obj="GP", fields={"temporary_data['poll_scale']": {"arrspec": (1, ["self.D"], "num", False), "nonnull": True}})
    c.req("gp_poll_scale_nonzero", "forall(self.D, lambda j: gp.temporary_data['poll_scale'][j] != 0)", props=["C14"])
    c.req("meshes_positive", "self.optim_state['search_mesh_size'] > 0 and self.optim_state['mesh_size'] > 0")
    c.let(nY="count_true(self.function_logger.X_flag)", msi="self.mesh_size_integer", cap='self.options["max_poll_grid_number"]',
          ssi='self.optim_state["search_size_integer"]', fc="self.function_logger.func_count",
          B_='self.options["max_fun_evals"]', it='self.optim_state["iter"]',
          steps='self.options["accelerate_mesh_steps"]')
    # default improvement policy (properties C13/C04 quantify over settings that keep it)
    c.req("no_stobads", 'not truthy(self.options["stobads"])')
    c.req("cap_nonpos", "msi <= cap and cap <= 0", props=["C13"])
    c.req("ssi_le_msi", "ssi <= msi", props=["C13"])
    c.req("grid_number_nonneg", 'self.options["search_grid_number"] >= 0')
    c.req("D_pos", "self.D >= 1")
    c.req("forcing_nonneg", "self.sufficient_improvement >= 0", props=["C13", "C04", "C03"])
    NOFORCE = "not truthy(self.options['force_poll_mesh'])"
    # the displacement vectors are mesh_size x direction x poll_scale (the scaling by which poll_mads_2n divided)
    c.cut("vv = B_new * self.optim_state['mesh_size'] * gp.temporary_data['poll_scale']", "lemma", None, {
        "c14_displacement_is_mesh_times_direction": "rows(vv) == 2 * self.D and forall(2 * self.D, self.D, lambda i, j: "
        "vv[i][j] == B_new[i][j] * self.optim_state['mesh_size'] * gp.temporary_data['poll_scale'][j])"}, props=["C14"],
        top=("c14_displacement_is_mesh_times_direction",))
    c.hook("vv = (B_new * self.optim_state['mesh_size']) * gp.temporary_data['poll_scale']", {"ghost.V": "vv"})
    c.cut("u_new = u_poll[index_acq]", "lemma", None, {
        "c14_polled_point_is_a_row_of_the_poll_set": "forall(self.D, lambda j: u_new[j] == u_poll[index_acq][j])"}, props=["C14"],
        top=("c14_polled_point_is_a_row_of_the_poll_set",))
    c.loop(0, invariants={
        "c13_good_iff": "iff(certain_good_poll, poll_best_improvement > self.sufficient_improvement)",
        "c13_best_is_gap": "poll_best_improvement == self.fval - f_poll_best and poll_best_improvement >= 0",
        "count": "poll_count >= 0",
        "c14_at_most_2D": "poll_count <= 2 * self.D and fc - old(fc) <= poll_count",
        "c14_scale_nonzero": "forall(self.D, lambda j: gp.temporary_data['poll_scale'][j] != 0)",
        "basis_and_set_together": "isnone(B) == isnone(u_poll) and implies(not isnone(B), rows(B) >= 2)",
        "c03_calls_counted": "ghost.n_calls - old(ghost.n_calls) == fc - old(fc) and nY >= old(nY)",
        "c10_no_failure": "not truthy(ghost.target_raised)",
        "logger_wf": wf_at("self.function_logger"),
        # C04: the best polled point so far is a logged evaluation and no logged value is below it
        "c04_best_logged": "implies(" + DET + ", " + INC("u_poll_best", "y_poll_best") + " and f_poll_best == y_poll_best and f_sd_poll_best == 0)",
        "c04_best_minimal": "implies(" + DET + ", " + MIN("y_poll_best") + ")",
        "c04_log_maps_back": LOGMAP,
        "c04_log_grows": LOG_GROWS,
        # C02: every remaining poll candidate, the best polled point and every logged point are feasible
        "c02_poll_set_feasible": "implies(not isnone(u_poll), forall(rows(u_poll), lambda k: feasx(invt(row(u_poll, k)))))",
        "c02_best_feasible": FEAS("u_poll_best"),
        "c02_log_feasible": LOGFEAS,
        "c04_state_kept": "self.fval == old(self.fval) and self.yval == old(self.yval) and self.fsd == old(self.fsd) and "
                          "self.optim_state['uncertainty_handling_level'] == old(self.optim_state['uncertainty_handling_level']) and "
                          "truthy(self.function_logger.he_noise_flag) == truthy(old(self.function_logger.he_noise_flag))",
        "c03_budget": "implies(old(fc) < B_, fc <= B_) and fc >= old(fc) and implies(old(fc) >= B_, fc == old(fc))",
    }, variant=["2 * self.D - poll_count"])
    # --- C13 top-level clauses, taken from the property statement -------------------------------
    c.ens("success_doubles", "implies(old(self.fval) - result[1] > old(self.sufficient_improvement), "
          "msi == ite(old(msi) + 1 <= cap, old(msi) + 1, cap))", top=True, props=["C13"])
    c.ens("failure_halves_or_quarters", "implies(not (old(self.fval) - result[1] > old(self.sufficient_improvement)), "
          "msi == old(msi) - 1 - ite(truthy(self.options['accelerate_mesh']) and it > steps and "
          "self.f_q_historic_improvement < self.options['tol_fun'], 1, 0))", top=True, props=["C13"])
    c.ens("mesh_is_power_of_two", "self.mesh_size == pw(2.0, msi) and self.optim_state['mesh_size'] == self.mesh_size",
          top=True, props=["C13"])
    c.ens("mesh_le_cap", "msi <= cap", top=True, props=["C13"])
    c.ens("search_mesh_le_poll_mesh", "ssi <= msi", top=True, props=["C13"])
    # --- C03: evaluations stay within the budget, counter only grows ------------------------------
    c.ens("budget", "implies(old(fc) < B_, fc <= B_) and fc >= old(fc)", top=True, props=["C03"])
    c.ens("budget_exhausted_no_eval", "implies(old(fc) >= B_, fc == old(fc))", top=True, props=["C03"])
    c.ens("calls_counted", "ghost.n_calls - old(ghost.n_calls) == fc - old(fc)", top=True, props=["C03"])
    c.ens("points_kept", "nY >= old(nY)", props=["C03"])
    c.ens("options_kept", "self.options['search_n_try'] == old(self.options['search_n_try']) and B_ == old(B_) and "
          "self.options['max_iter'] == old(self.options['max_iter']) and cap == old(cap)")
    c.req("sloppy", "truthy(self.options['sloppy_improvement'])", props=["C04", "C19"])
    c.req("u_is_best", "implies(" + DET + ", pteq(pt(self.u), pt(self.u_best)))", props=["C04", "C19"])
    c.ens("u_is_best", "implies(" + DET + ", pteq(pt(self.u), pt(self.u_best)))", props=["C04", "C19"])
    inv_c04(c)
    inv_c02(c)
    c.ens("at_most_2D_points_polled", "fc - old(fc) <= 2 * self.D", top=True, props=["C14"])
    c.ens("level_kept", "self.optim_state['uncertainty_handling_level'] == old(self.optim_state['uncertainty_handling_level'])")
    c.ens("log_only_grows", LOG_GROWS, props=["C19", "C04"])
    c10(c)
    c.ens("controller_untouched", "self.optim_state['search_count'] == old(self.optim_state['search_count']) and "
          "self.search_success == old(self.search_success)", props=["C03"])
