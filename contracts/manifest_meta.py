SOURCE_COMMITS = []
NOTES = ("Contract-based deductive verification of the real pybads functions. pyvc (/verif/pyvc) re-reads /repo with ast on every run, "
         "symbolically executes each function under contract against sidecar contracts (/verif/contracts), replaces calls by callee contracts, "
         "cuts loops at invariants, and discharges every obligation with z3. Clauses outside the verifier's reach are covered by bounded layers on the real code "
         "(/verif/replay), always labelled bounded in the evidence. No hooks in /repo. 14 genuine defects were repaired by unguarded 'fix:' commits in /repo "
         "(2943e63 b92e9dc c58bea9 151c6df 310536c 421b57a bf7cb7f 57b63e8 46e43a5 e9288ae 73aa55c 567fe06 a8832ee f5468cb); 5 findings are recorded in "
         "known_findings.jsonl (C17 x1, C08 x3, C09 x1). See DESIGN.md (sections 8-12).")
PROOF_NOTE = ("Proof relative to the trusted base listed in the evidence file (T1 pyvc, T2 mathematical ints/reals and scalar/1-element identification, "
              "T3 NumPy primitive models, T4 assumed gpyreg contracts, T5 well-behaved user callables, T6 solvers, T7 single thread, T8 inferred frames of "
              "uncontracted callees). Preconditions (the part of the option space covered) are listed per function in the evidence.")
META = {
    "C03": dict(level="proof",
                text="Termination of optimize() for every sequence of search/poll outcomes by a lexicographic ranking function on the real main loop "
                     "(plus ranking functions for the poll loop and the final-sampling loop); evaluation budget, max_iter bound, func_count == number of "
                     "target calls, and truth of the termination message as postconditions/invariants discharged by z3 for all inputs. A proof is the right "
                     "level because the property quantifies over all outcome sequences, which no finite set of runs covers.",
                note=PROOF_NOTE + " Preconditions: search_n_try, max_iter >= 1, tol_fun > 0, tol_improvement >= 0, default improvement policy "
                     "(no stobads, improvement_quantile = 0.5), output_fcn None, max_poll_grid_number = 0, search_mesh_expand = 0, fresh instance "
                     "(search_count == search_n_try). Termination of gpyreg/scipy calls is assumed (T4)."),
    "C13": dict(level="proof",
                text="The mesh-size rule is a set of postconditions of _poll_step_ (success => min(k+1, cap); otherwise k-1, or k-2 exactly when "
                     "acceleration is enabled and the stall test holds; mesh_size == 2^k; search exponent <= poll exponent), a frame clause of "
                     "_search_step_ (mesh untouched outside polls), and invariants of optimize (k <= cap = 0; tol_mesh message truth), all discharged by z3.",
                note=PROOF_NOTE + " Preconditions: default improvement policy, poll_mesh_multiplier = 2, search_grid_multiplier = 2, "
                     "max_poll_grid_number = 0, search_mesh_expand = 0, search_grid_number >= 0. 2^k is the uninterpreted power function pw(2,k) with "
                     "ground monotonicity/step axioms."),
    "C10": dict(level="proof",
                text="Exceptional postconditions: FunctionLogger.__call__ lets the target's own exception escape (bare re-raise, no conversion), counts and logs "
                     "nothing for a failed or invalid call, makes exactly one target call; every BADS method that reaches the logger (initial design, noise test, "
                     "search, poll, final re-sampling) is verified with first-class exceptions so that a handler around a target call, a second call after a "
                     "failure, or a dishonest count fails a named obligation - for every call position k, not a sample of them.",
                note=PROOF_NOTE + " The user target is modelled as arbitrary code (any value, may raise) counted by ghost n_calls. The clause about which returned "
                     "VALUE kinds (NaN, inf, complex, vector, None, bad SD) are rejected is only partly covered: see evidence 'explanation'."),
    "C12": dict(level="proof",
                text="The evaluation log as a data structure against an abstract view: well-formedness invariant, new-record / no-record / growth clauses stated over the "
                     "whole view (every other row of every array unchanged), discharged for all log states and arguments.",
                note=PROOF_NOTE + " Not part of the proved clauses: the arithmetic of the specified-noise merge (precision-weighted mean, combined SD) - checked by the bounded "
                     "reference-model layer only; that unused rows never equal a point (NaN is not modelled for the log) is an assumed clause backed by a syntactic obligation "
                     "(every allocation / growth of the log arrays fills with NaN)."),
    "C17": dict(level="proof",
                text="Postconditions of the candidate filter for all candidate arrays, boxes, tolerances and logs: inside the box it was filtered against, feasible, "
                     "pairwise distinct. The 'not already evaluated' clause is a recorded known finding (the code keeps evaluated points; pinned by an existing test).",
                note=PROOF_NOTE + " non_box_cons is assumed to be a deterministic row-wise function (T5). np.unique/np.sort/boolean-mask selection are trusted primitive models."),
    "C01": dict(level="proof",
                text="Clamp postconditions of both transform directions for every finite input; the target is called only on inverse_transf(x)[0] (single call site, "
                     "coverage scan), the candidate filter hands only inverse_transf images to non_box_cons, and the returned x is an inverse_transf image: all inside "
                     "the original hard box for every run.",
                note=PROOF_NOTE + " Assumes g/ginv map finite input to finite output (checked for the lambda bodies under C11). The internal-coordinate clause "
                     "(logged u inside the transformed box) is not yet claimed."),
    "C02": dict(level="proof",
                text="No infeasible point is evaluated or returned: feasibility is a ghost predicate over points; the candidate filter's postcondition, a precondition at every "
                     "logger call site (initial point, noise test, initial design, every search and poll evaluation, final re-sampling) and loop invariants over incumbent, log, "
                     "poll set and history iterates are discharged for all constraint regions, bounds, noise modes and seeds; the snapped start is feasible or rejected.",
                note=PROOF_NOTE + " The user constraint is assumed to be a deterministic row-wise function (T5). IterationHistory.record is an assumed contract (bounded-checked). "
                     "The constructor's first x0 check (before snapping) is covered by the bounded panel only."),
    "C19": dict(level="proof",
                text="History/result consistency as invariants of the real main loop: each recorded iterate is a logged evaluation carrying the recorded value (deterministic targets), "
                     "recorded x is the image of recorded u, recorded func_count is monotone and bounded by the final count, the returned x is a recorded iterate; OptimizeResult field "
                     "equalities and key rejection as postconditions. The pure container semantics (arbitrary record/overwrite sequences, deep copies) are a bounded reference-model test.",
                note=PROOF_NOTE + " IterationHistory.record is used through an assumed contract whose conformance is bounded-checked (replay/history_model.py); deep-copy is a structural scan "
                     "plus that bounded test because pyvc models array values functionally (no aliasing). For noisy targets the 'value observed at the recorded point' clause is bounded (panel)."),
    "C05": dict(level="proof",
                text="The noisy-target bookkeeping as postconditions over ghost sequences of the target's calls (k-th argument, k-th returned value/SD): noise detected iff the two "
                     "starting-point values differ by more than tol_noise; the final samples are the last calls, all at the returned x; yval_vec/ysd_vec are exactly their returned values; "
                     "fval/fsd are mean and standard error of yval_vec; the returned x is an earlier recorded iterate; the sample reserve is carved out of the budget.",
                note=PROOF_NOTE + " mean/std are uninterpreted functions of the vector (the clause is that the code applies them to exactly that vector). The supplementary SD entry of ysd_vec "
                     "when only one final sample is configured is checked by the bounded panel only."),
    "C11": dict(level="proof",
                text="Lemmas over the real lambda bodies of the transformer (called symbolically from the postconditions) in real arithmetic with uninterpreted, monotone log/exp: unit "
                     "mapping of the plausible bounds, strict monotonicity of both directions, exact affine round trip, the decade/positivity flag rule as a loop invariant, NaN-free "
                     "transformed bounds, and clamping of both directions for every input. Floating-point rounding (1e-9 of the width) and the log round trip are a bounded sampling check.",
                note=PROOF_NOTE + " Reals for floats; log/exp uninterpreted with ground monotonicity and inverse facts; the flag vector passed in is NaN or 0 per coordinate (as BADS passes it); "
                     "the constructor's numeric self-test is treated as opaque (it only decides whether ValueError is raised)."),
    "C14": dict(level="proof",
                text="The LTMADS construction as structural postconditions/intermediate assertions on the real generator for every outcome of its random draws, every D and every mesh ratio, "
                     "plus a machine-checked Lean 4/Mathlib lemma (non-singularity of the transposed row-permuted lower-triangular matrix with non-zero diagonal, invariance under column scaling, "
                     "positive spanning of {+-d_i}); the poll loop evaluates at most 2D points; the displacement matrix is mesh x direction x poll scale, the real candidate filter (no projection) only selects "
                     "rows of its input, and the polled point is a row of the poll set.",
                note=PROOF_NOTE + " np.random.randint / permutation, np.tril, np.eye, np.transpose are trusted primitive models. The clause 'every polled point == incumbent + mesh * direction' is under contract link by link only: the loop invariant joining the three links above "
                     "did not discharge (quantifier instantiation) and is not registered; the end-to-end clause and 'each direction once' "
                     "are checked on real runs by the bounded panel, and the generator is additionally enumerated exhaustively for D <= 3 (bounded)."),
    "C18": dict(level="proof",
                text="In the real ESSearch.__call__, for every number of ES generations, every population size and every outcome of the candidate filter (including generations with no survivor): "
                     "the proposal is one of the surviving candidates, carries that candidate's acquisition value, no surviving candidate of any generation has a lower value, and all of them lie in the "
                     "mesh-rounded search box; the hedge probabilities sum to 1 with each >= gamma for every score vector; a search step costs at most one target evaluation.",
                note=PROOF_NOTE + " Assumed (listed in evidence): acq_fcn_lcb returns for each row a value that depends only on that row and func_count (GP.predict pure and row-wise, T4). "
                     "Candidate generation statements are executed as havoc. Sum over a vector is an uninterpreted linear functional over mathematical reals (no rounding). "
                     "The rank-selection mask (_get_selection_idx_mask_) is only checked exhaustively up to a bound (bounded, not proved); "
                     "the random choice itself (argwhere on the cumulative sum) is not modelled."),
    "C15": dict(level="proof",
                text="On the real training-set functions, for every log state (repeats, any number of rows, with/without supplied noise), every dimension and every value of the metric: "
                     "each training pair handed to the GP is a logged evaluation with the supplied noise as SD squared, the local training set is the nearest logged points in ascending "
                     "distance with the configured size limits, the incremental add appends exactly the pair it is given, and the acquisition value is mean - sqrt(beta_t) * sd with "
                     "the documented beta_t.",
                note=PROOF_NOTE + " The length-scaled metric udist is not verified (its result vector is a ghost; ordering and selection are proved relative to it) - its value is only "
                     "recomputed in the bounded layer. gp.predict / gp.update are assumed contracts on gpyreg (T4: predict pure, update leaves the training set alone). "
                     "The pair passed to add_and_update_gp at its two call sites is the latest evaluation (precondition pair_is_the_latest_evaluation, discharged in _search_step_ and _poll_step_ as "
                     "restricted entries: the loop invariants of those functions are discharged under C18 / C14); that local_gp_fitting stores the selected set unchanged "
                     "is checked on real runs by the bounded panel only."),
    "C16": dict(level="proof",
                text="For every number (< 10 in a row per refit; any finite number for the initial training) and placement of linear-algebra failures of GP.fit / GP.update(hyp=), the three real "
                     "functions that call them let no exception escape, the retry loops terminate, and every retry hands gpyreg a consistent training set (inputs, targets and noise variances "
                     "of equal length, also after points were dropped).",
                note=PROOF_NOTE + " gpyreg is outside the verified fragment: GP.fit / GP.update are assumed contracts (may raise only LinAlgError, within a ghost fault budget; other GP methods "
                     "do not raise and leave the training set alone). That optimize() as a whole completes and keeps the other guarantees after such failures is a bounded observation "
                     "(fault injection on full runs), not a proof: the run-level contracts of the other properties do not depend on the GP's values but were not re-proved under the fault model."),
    "C08": dict(level="proof",
                text="For every combination of finite, infinite and NaN bounds and start coordinates and D = 1, 2, 3 (as the property quantifies): the real _bounds_check_ returns normally only for "
                     "valid definitions and raises ValueError only for invalid ones (two recorded exceptions), and accepted definitions are normalised as stated.",
                note=PROOF_NOTE + " Floats are mathematical extended reals: rounding-distance cases are outside the proof (one known finding there comes from the bounded layer). "
                     "Preconditions: one start point given or omitted as a whole, bounds already 1 x D arrays, no constraint function. The argument spellings handled by BADS.__init__ "
                     "(lists, scalars, integer dtype, omitted arguments, dimension inference) and 'no target call at construction' are checked by the bounded layer only."),
    "C07": dict(level="other",
                technique="contract on the real _init_random_seed_ discharged by z3, plus effect / typestate / frame scans over the real AST (seeding precedes every draw, no global state, "
                          "no entropy source); the two-run statement itself by bounded comparison of real runs",
                text="The causes of irreproducibility that effect contracts and scans over the real source can decide: the seed is applied (contract on _init_random_seed_) before every "
                     "statement that can draw from NumPy's global generator in the constructor and in optimize(), nothing in the library writes module-level or class-level state or reads "
                     "the clock / OS entropy outside the timer, and the Sobol design is seeded explicitly. The two-run statement itself is only observed (bounded).",
                note="Not a proof of the hyperproperty: bit-for-bit determinism of NumPy / SciPy / gpyreg given equal inputs and equal generator state is assumed (T3/T4), the call-graph "
                     "closure resolves callees by simple name (over-approximation), and aliasing of mutable state through object attributes is not tracked. The bounded layer compares real runs "
                     "under different process histories."),
    "C20": dict(level="exploration",
                technique="bounded exploration of the real constructor / Options class (stand-in, labelled bounded: the option loader is outside the verifier's language fragment) "
                          "plus syntactic obligations over the real source (loader structure, global-state frame scan); nothing is counted as proved",
                text="Bounded exploration on the real code (labelled bounded, nothing counted as proved): every option name x D = 1..3 as a single override, subsets of overrides, unknown names, "
                     "defaults against an independent evaluation of the option files, construct/run orders of several instances, caller-owned dict and arrays compared before and after; "
                     "plus syntactic obligations on the loader's structure and a global-state frame scan.",
                note="Contract-based verification does not apply to the loader itself (exec/eval of option-file text, configparser, dict subclass with symbolic string keys): outside the "
                     "language fragment of the verifier; see DESIGN.md. The bound: option values are one tweak per option, D <= 4, 4 instances per order."),
    "C09": dict(level="other",
                technique="contract-based deductive verification of safety obligations (opt-in IndexError / UnboundLocalError / empty-reduction semantics, exceptional contracts) on the real "
                          "search and poll functions, discharged by z3; the whole-run statement by bounded full runs with forced rare histories",
                text="A stated subset of crash freedom as safety obligations on the real search-step functions (no IndexError, no UnboundLocalError, no undeclared exception class, for every "
                     "outcome of the candidate filter); the property as a whole (optimize() returns for every valid problem in every mode) is only "
                     "observed on full runs with rare internal histories forced (bounded).",
                note="Not a proof of C09: exceptions raised inside NumPy, SciPy and gpyreg, KeyError on dictionaries and value-kind AttributeErrors are not modelled by the verifier. "
                     "One recorded finding (budget not above the initial design) remains."),
    "C04": dict(level="proof",
                text="For deterministic targets the returned point is a logged evaluation with exactly the logged value and no logged value is lower: an invariant "
                     "(incumbent logged, minimal, fval == yval, fsd == 0) proved for the initial design, every search step, every poll loop iteration and the main loop, "
                     "for all targets, bounds and seeds - ties, plateaus and boundary optima included.",
                note=PROOF_NOTE + " Preconditions: sloppy_improvement True, improvement_quantile 0.5, no stobads, fresh log (no preloaded fun_values), uncertainty level 0. "
                     "The per-iteration history clause (recorded fval never increases) and target_type/OptimizeResult copying are checked only by the bounded panel."),
    "C06": dict(not_applicable="population-level convergence quality of a numerical optimiser (success rate over random quadratics): no function-level "
                               "contract expresses a rate and GP regression numerics are outside any solver here; see DESIGN.md section 9"),
}
