SOURCE_COMMITS = []
NOTES = ("Contract-based deductive verification of the real pybads functions. pyvc (/verif/pyvc) re-reads /repo with ast on every run, "
         "symbolically executes each function under contract against sidecar contracts (/verif/contracts), replaces calls by callee contracts, "
         "cuts loops at invariants, and discharges every obligation with z3. See DESIGN.md.")
PROOF_NOTE = ("Proof relative to the trusted base listed in the evidence file (T1 pyvc, T2 mathematical ints/reals and scalar/1-element identification, "
              "T3 NumPy primitive models, T4 assumed gpyreg contracts, T5 well-behaved user callables, T6 solvers, T7 single thread, T8 inferred frames of "
              "uncontracted callees). Preconditions (the part of the option space covered) are listed per function in the evidence.")
META = {
    "C03": dict(level="proof",
                text="Termination of optimize() for every sequence of search/poll outcomes by a lexicographic ranking function on the real main loop "
                     "(plus ranking functions for the poll loop and the final-sampling loop); evaluation budget, max_iter bound, func_count == number of "
                     "target calls, and truth of the termination message as postconditions/invariants discharged by z3 for all inputs. A proof is the right "
                     "level because the property quantifies over all outcome sequences, which no finite set of runs covers.",
                note=PROOF_NOTE + " Preconditions: search_n_try, max_iter >= 1, tol_fun > 0, tol_improvement >= 0, default improvement policy "
                     "(no stobads, improvement_quantile = 0.5), output_fcn None, max_poll_grid_number = 0, search_mesh_expand = 0, fresh instance "
                     "(search_count == search_n_try). Termination of gpyreg/scipy calls is assumed (T4)."),
    "C13": dict(level="proof",
                text="The mesh-size rule is a set of postconditions of _poll_step_ (success => min(k+1, cap); otherwise k-1, or k-2 exactly when "
                     "acceleration is enabled and the stall test holds; mesh_size == 2^k; search exponent <= poll exponent), a frame clause of "
                     "_search_step_ (mesh untouched outside polls), and invariants of optimize (k <= cap = 0; tol_mesh message truth), all discharged by z3.",
                note=PROOF_NOTE + " Preconditions: default improvement policy, poll_mesh_multiplier = 2, search_grid_multiplier = 2, "
                     "max_poll_grid_number = 0, search_mesh_expand = 0, search_grid_number >= 0. 2^k is the uninterpreted power function pw(2,k) with "
                     "ground monotonicity/step axioms."),
    "C06": dict(not_applicable="population-level convergence quality of a numerical optimiser (success rate over random quadratics): no function-level "
                               "contract expresses a rate and GP regression numerics are outside any solver here; see DESIGN.md section 7/C06"),
}
