"""Models of stored callables (user target, user constraint, transformer closures).
Trusted contracts on values the verifier cannot see the body of (T5) or whose body is verified
separately (g / ginv: C11 lemmas over the extracted lambda bodies)."""
import ast
import z3

from pyvc.vals import N, Arr, Val, ctx, arr_fresh, _real
from pyvc.symexec import Exit

PT = z3.ArraySort(z3.IntSort(), z3.RealSort())


def uf(name, *sorts):
    return ctx().uf(name, *sorts)


def invt(p):
    return uf("InvT", PT, PT)(p)


def fwdt(p):
    return uf("FwdT", PT, PT)(p)


def cval(p):
    return uf("Cval", PT, z3.RealSort())(p)


def retval(k):
    """Value returned by the k-th call of the user target (1-based), as a global ghost sequence."""
    return uf("RetVal", z3.IntSort(), z3.RealSort())(k)


def retsd(k):
    return uf("RetSD", z3.IntSort(), z3.RealSort())(k)


def argpt(k):
    """Argument (original coordinates) of the k-th call of the user target."""
    return uf("ArgPt", z3.IntSort(), PT)(k)


def feasx(p):
    """User constraint reports no violation at original-space point p (True when no constraint is given)."""
    return z3.Or(z3.Bool("ghost.cons_none"), cval(p) <= 0)


def rowwise(name, f, x, finite=True):
    """Result array of a row-wise deterministic map f: Pt -> Pt applied to every row of x."""
    a = x.get_arr()
    if a is None:
        return Val.fresh(name)
    if a.ndim == 2:
        r = Arr(2, a.shape, lambda k, j: N(z3.Select(f(a.row(k)), j)), "num")
        r.rowf = lambda k: f(a.row(k))
        return Val.of_arr(r)
    if a.ndim == 1:
        p = f(a.row(None))
        r = Arr(1, a.shape, lambda j: N(z3.Select(p, j)), "num")
        r.pt = p
        return Val.of_arr(r)
    return Val.fresh(name)


def model_ginv(eng, fv, args, kw, st, e):
    # assumption A_ginv: finite input -> finite (non-NaN) output, row-wise deterministic (checked for the lambda bodies in C11)
    return rowwise("ginv", lambda p: uf("GInv", PT, PT)(p), args[0])


def model_g(eng, fv, args, kw, st, e):
    return rowwise("g", lambda p: uf("G", PT, PT)(p), args[0])


def callsite_obligations(eng, suffix, arg, st, e):
    c = eng.cur_contract
    if c is None or eng.inline_depth != 0:
        return
    k = eng.call_counts.get(suffix, 0)
    eng.call_counts[suffix] = k + 1
    for cl in c.callsites.get(suffix, []):
        if not eng.rel(cl):
            continue
        s2 = st.copy()
        s2.env["arg"] = arg
        g = eng.eval_clause(cl, s2, pre=eng.entry_state, polarity=1)
        eng.oblige("call[%s]#%d::%s" % (suffix, k, cl.name), st, g, "callsite", cl.top, cl.props, e, cl)


def model_cons(eng, fv, args, kw, st, e):
    """non_box_cons(X): one value per row, a deterministic function of the row (T5)."""
    x = args[0]
    a = x.get_arr()
    eng.effect("calls_constraint", e)
    callsite_obligations(eng, "non_box_cons", x, st, e)
    if a is None:
        return Val.fresh("cons")
    if a.ndim == 1:
        return Val.of_num(N(cval(a.row(None))))
    r = Arr(1, (a.shape[0],), lambda k: N(cval(a.row(k))), "num")
    return Val.of_arr(r)


def model_target(eng, fv, args, kw, st, e):
    """self.fun(x): arbitrary user code: any return value, may raise; counted by the ghost n_calls."""
    x = args[0]
    a = x.get_arr()
    eng.effect("calls_target", e)
    callsite_obligations(eng, ".fun", x, st, e)
    n = eng.lookup(st, "ghost.n_calls")
    k1 = z3.simplify(n.get_num().r + 1)
    st.env["ghost.n_calls"] = Val.of_num(N(k1))
    if a is not None and a.ndim == 1:
        ctx().add_fact(z3.Implies(st.pc, argpt(k1) == a.row(None)))
    # the k-th call may raise any exception (the fault the user code decides on)
    cond = z3.Bool(ctx().fresh("target_raises"))
    xs = st.copy()
    xs.pc = z3.And(st.pc, cond)
    xs.env["ghost.target_raised"] = Val.of_bool(True)
    st.env["ghost.target_raised"] = Val.of_bool(False)
    ex = Exit("raise", xs, exc="TargetError", where=eng.where(e))
    ex.tag = "call[.fun]"
    ex.val = Val(py=("target_exc",))
    eng.push_exit(ex)
    st.pc = z3.And(st.pc, z3.Not(cond))
    nm = ctx().fresh("target_ret")
    r = Val(poly=nm, ref="$" + nm)
    r.py = ("target_ret", k1)
    r.lazy = N(retval(k1))
    return r


MODELS = {".ginv": model_ginv, ".g": model_g, "non_box_cons": model_cons, ".fun": model_target}
