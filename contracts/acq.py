from pyvc.contracts import contract

ACQ = "pybads.acquisition_functions.acq_fcn_lcb.acq_fcn_lcb"


@contract(ACQ, serves=["C15", "C18", "C02"])
def _(c):
    c.arr("xi", 2, [None, None])
    c.ints("func_count")
    c.req("fc", "func_count >= 0")
    c.mod()
    c.result = {"tuple": [{"arrspec": (2, ["rows(xi)", 1], "num", False)}, {"arrspec": (2, ["rows(xi)", 1], "num", False)}, {"arrspec": (2, ["rows(xi)", 1], "num", False)}]}
    c.ens("one_value_per_candidate", "rows(result[0]) == rows(xi) and rows(result[1]) == rows(xi) and rows(result[2]) == rows(xi)", props=["C18", "C02", "C15"])
    # C15: the documented LCB rule  z = mu - sqrt(beta_t) * sd,  beta_t = nu * 2 * log(D * t^2 * pi^2 / (6 * delta)),  t = func_count + 1, nu = 0.2, delta = 0.1
    c.ens("lcb_is_mean_minus_sqrt_beta_times_sd", "implies(old(isnone(sqrt_beta)), forall(rows(xi), lambda k: result[0][k][0] == result[1][k][0] - "
          "np.sqrt(0.2 * 2 * np.log(cols(xi) * (func_count + 1) ** 2 * np.pi ** 2 / (6 * 0.1))) * result[2][k][0]))", top=True, props=["C15"])
    c.ens("mean_and_sd_are_the_gp_prediction", "forall(rows(xi), lambda k: result[1][k][0] == f_mu[k][0] and result[2][k][0] == np.sqrt(f_s2[k][0]))", top=True, props=["C15"])
    c.ens_assumed("value_is_a_function_of_point_and_count", "forall(rows(xi), lambda k: result[0][k][0] == acqv(row(xi, k), func_count))",
                  "T4: for a fixed GP state and beta argument gp.predict is pure and row-wise, so the LCB value of a row depends only on that row and func_count; "
                  "checked on real runs by the C18 panel monitor (recomputation of z for the proposed point)", props=["C18"])
    c.may_raise("ValueError")
