from pyvc.contracts import contract

ACQ = "pybads.acquisition_functions.acq_fcn_lcb.acq_fcn_lcb"


@contract(ACQ, serves=["C15", "C18", "C02"])
def _(c):
    c.arr("xi", 2, [None, None])
    c.ints("func_count")
    c.req("fc", "func_count >= 0")
    c.mod()
    c.result = {"tuple": [{"arrspec": (2, ["rows(xi)", 1], "num", False)}, {"arrspec": (2, ["rows(xi)", 1], "num", False)}, {"arrspec": (2, ["rows(xi)", 1], "num", False)}]}
    c.ens("one_value_per_candidate", "rows(result[0]) == rows(xi) and rows(result[1]) == rows(xi) and rows(result[2]) == rows(xi)", props=["C18", "C02", "C15"])
    c.may_raise("ValueError")
