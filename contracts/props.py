"""Per-property configuration: functions under contract, mutant catalogue, native (bounded) layers."""
from pyvc import scans

B = "pybads.bads.bads.BADS"
FL = "pybads.function_logger.function_logger.FunctionLogger"
P_BADS = "pybads/bads/bads.py"
P_FL = "pybads/function_logger/function_logger.py"

LOGGER_CALLERS = [B + "._init_mesh_", B + ".optimize", B + "._search_step_", B + "._poll_step_"]


def scan_c03(index, registry):
    return scans.target_call_sites(index, registry) + scans.logger_call_sites(index, registry, LOGGER_CALLERS)


MUT = {}

MUT["C13"] = [
    dict(id="c13-fail-grows", what="failed poll increases the mesh exponent", path=P_BADS, functions=[B + "._poll_step_"],
         old="            # Failed poll, decrease mesh size\n            self.mesh_size_integer -= 1",
         new="            # Failed poll, decrease mesh size\n            self.mesh_size_integer += 1", expect="failure_halves_or_quarters"),
    dict(id="c13-cap-max", what="cap applied with np.maximum", path=P_BADS, functions=[B + "._poll_step_"],
         old="self.mesh_size_integer = np.minimum(\n                self.mesh_size_integer + 1, self.options[\"max_poll_grid_number\"]",
         new="self.mesh_size_integer = np.maximum(\n                self.mesh_size_integer + 1, self.options[\"max_poll_grid_number\"]", expect="success_doubles"),
    dict(id="c13-accel-always", what="accelerated shrink without the stall test", path=P_BADS, functions=[B + "._poll_step_"],
         old="                if (\n                    self.f_q_historic_improvement < self.options[\"tol_fun\"]\n                ):",
         new="                if True:", expect="failure_halves_or_quarters"),
    dict(id="c13-search-mesh-max", what="search mesh exponent updated with np.maximum", path=P_BADS, functions=[B + "._poll_step_"],
         old="            self.optim_state[\"search_size_integer\"] = np.minimum(\n                self.optim_state[\"search_size_integer\"],",
         new="            self.optim_state[\"search_size_integer\"] = np.maximum(\n                self.optim_state[\"search_size_integer\"],", expect="search_mesh_le_poll_mesh"),
    dict(id="c13-good-ge", what="success judged with >= instead of >", path=P_BADS, functions=[B + "._poll_step_"],
         old="                        poll_best_improvement > self.sufficient_improvement\n                    )",
         new="                        poll_best_improvement >= self.sufficient_improvement\n                    )", expect="good_iff"),
    dict(id="c13-mesh-msg", what="tol_mesh termination test inverted", path=P_BADS, functions=[B + ".optimize"],
         old="            if self.optim_state[\"mesh_size\"] < self.optim_state[\"tol_mesh\"]:",
         new="            if self.optim_state[\"mesh_size\"] > self.optim_state[\"tol_mesh\"]:", expect="msg_truth"),
    dict(id="c13-search-touches-mesh", what="search step shrinks the mesh", path=P_BADS, functions=[B + "._search_step_"],
         old="        fval_old = self.fval\n", new="        fval_old = self.fval\n        self.mesh_size_integer -= 1\n", expect="mesh_untouched"),
]

MUT["C03"] = [
    dict(id="c03-no-reset", what="search_count never reset", path=P_BADS, functions=[B + ".optimize"],
         old="                self.optim_state[\"search_count\"] = 0\n                if (", new="                if (", expect="optimize"),
    dict(id="c03-no-poll-incr", what="poll iteration counter not advanced", path=P_BADS, functions=[B + ".optimize"],
         old="                    poll_iteration += 1\n                    self.optim_state[\"iter\"] = poll_iteration", new="                    self.optim_state[\"iter\"] = poll_iteration", expect="variant-decreases"),
    dict(id="c03-budget-gt", what="budget test with > instead of >=", path=P_BADS, functions=[B + ".optimize"],
         old="                self.function_logger.func_count\n                >= self.options[\"max_fun_evals\"]", new="                self.function_logger.func_count\n                > self.options[\"max_fun_evals\"]", expect="optimize"),
    dict(id="c03-poll-guard-le", what="poll loop guarded by <= budget", path=P_BADS, functions=[B + "._poll_step_"],
         old="            and self.function_logger.func_count < self.options[\"max_fun_evals\"]\n            and poll_count",
         new="            and self.function_logger.func_count <= self.options[\"max_fun_evals\"]\n            and poll_count", expect="budget"),
    dict(id="c03-search-count-skip", what="search_count not advanced on the search attempt", path=P_BADS, functions=[B + "._search_step_"],
         old="        self.optim_state[\"search_count\"] += 1\n", new="        self.optim_state[\"search_count\"] += 0\n", expect="search_counted"),
    dict(id="c03-msg-swap", what="max_iter message used for the budget condition", path=P_BADS, functions=[B + ".optimize"],
         old="                msg = \"Optimization terminated: reached maximum number of function evaluations options['max_fun_evals'].\"",
         new="                msg = \"Optimization terminated: reached maximum number of iterations options['max_iter'].\"", expect="msg_truth"),
    dict(id="c03-maxiter-off", what="max_iter test off by one", path=P_BADS, functions=[B + ".optimize"],
         old="            if poll_iteration >= self.options[\"max_iter\"] - 1:", new="            if poll_iteration >= self.options[\"max_iter\"] + 1:", expect="optimize"),
    dict(id="c03-no-reserve", what="final-sample reserve not carved out of the budget", path=P_BADS, functions=[B + "._init_optimization_"],
         old="            self.options[\"max_fun_evals\"] = (\n                self.options[\"max_fun_evals\"]\n                - self.options[\"noise_final_samples\"]\n            )",
         new="            pass", expect="reserve"),
    dict(id="c03-stale-budget", what="termination test uses the budget read before the noisy carve-out", path=P_BADS, functions=[B + ".optimize"],
         old="        gp, Ns_gp, sn2hpd, hyp_dict = self._init_optimization_()\n        \n", new="        max_fe = self.options[\"max_fun_evals\"]\n        gp, Ns_gp, sn2hpd, hyp_dict = self._init_optimization_()\n        \n",
         old2=None, expect="optimize", extra=[("                >= self.options[\"max_fun_evals\"]\n            ):\n                is_finished = True", "                >= max_fe\n            ):\n                is_finished = True")]),
]

PROPS = {
    "C13": dict(
        level="proof",
        functions=[B + "._poll_step_", B + ".optimize", B + "._search_step_"],
        mutants=MUT["C13"],
        explanation="Mesh rule as postconditions of _poll_step_ (success: min(k+1,cap); failure: k-1 or k-2 exactly under the stall test; "
                    "mesh_size = 2^k; search exponent <= poll exponent), frame clause of _search_step_, loop invariant k <= cap = 0 of optimize, "
                    "tol_mesh message truth. Preconditions: default improvement policy (no stobads, improvement_quantile 0.5), "
                    "max_poll_grid_number = 0, search_mesh_expand = 0, poll_mesh_multiplier = 2, search_grid_multiplier = 2.",
    ),
    "C03": dict(
        level="proof",
        functions=[B + ".optimize", B + "._search_step_", B + "._poll_step_", B + "._init_optimization_", B + "._init_mesh_"],
        scans=[scan_c03],
        mutants=MUT["C03"],
        explanation="Termination of the real main loop by a lexicographic ranking function (MI-1-poll_iteration, B-fc_round, NT-search_count) "
                    "with ghost fc_round, termination of the poll loop (2D-poll_count) and of the final-sampling loop; budget and max_iter as "
                    "postconditions; func_count == ghost n_calls through every function that calls the logger; message truth as invariant.",
    ),
}
