"""Per-property configuration: functions under contract, mutant catalogue, native (bounded) layers."""
from pyvc import scans

B = "pybads.bads.bads.BADS"
FL = "pybads.function_logger.function_logger.FunctionLogger"
P_BADS = "pybads/bads/bads.py"
P_FL = "pybads/function_logger/function_logger.py"

LOGGER_CALLERS = [B + "._init_mesh_", B + ".optimize", B + "._search_step_", B + "._poll_step_"]


def scan_c03(index, registry):
    return scans.target_call_sites(index, registry) + scans.logger_call_sites(index, registry, LOGGER_CALLERS)


MUT = {}

MUT["C13"] = [
    dict(id="c13-fail-grows", what="failed poll increases the mesh exponent", path=P_BADS, functions=[B + "._poll_step_"],
         old="            # Failed poll, decrease mesh size\n            self.mesh_size_integer -= 1",
         new="            # Failed poll, decrease mesh size\n            self.mesh_size_integer += 1", expect="failure_halves_or_quarters"),
    dict(id="c13-cap-max", what="cap applied with np.maximum", path=P_BADS, functions=[B + "._poll_step_"],
         old="self.mesh_size_integer = np.minimum(\n                self.mesh_size_integer + 1, self.options[\"max_poll_grid_number\"]",
         new="self.mesh_size_integer = np.maximum(\n                self.mesh_size_integer + 1, self.options[\"max_poll_grid_number\"]", expect="success_doubles"),
    dict(id="c13-accel-always", what="accelerated shrink without the stall test", path=P_BADS, functions=[B + "._poll_step_"],
         old="                if (\n                    self.f_q_historic_improvement < self.options[\"tol_fun\"]\n                ):",
         new="                if True:", expect="failure_halves_or_quarters"),
    dict(id="c13-search-mesh-max", what="search mesh exponent updated with np.maximum", path=P_BADS, functions=[B + "._poll_step_"],
         old="            self.optim_state[\"search_size_integer\"] = np.minimum(\n                self.optim_state[\"search_size_integer\"],",
         new="            self.optim_state[\"search_size_integer\"] = np.maximum(\n                self.optim_state[\"search_size_integer\"],", expect="search_mesh_le_poll_mesh"),
    dict(id="c13-good-ge", what="success judged with >= instead of >", path=P_BADS, functions=[B + "._poll_step_"],
         old="                        poll_best_improvement > self.sufficient_improvement\n                    )",
         new="                        poll_best_improvement >= self.sufficient_improvement\n                    )", expect="good_iff"),
    dict(id="c13-mesh-msg", what="tol_mesh termination test inverted", path=P_BADS, functions=[B + ".optimize"],
         old="            if self.optim_state[\"mesh_size\"] < self.optim_state[\"tol_mesh\"]:",
         new="            if self.optim_state[\"mesh_size\"] > self.optim_state[\"tol_mesh\"]:", expect="msg_truth"),
    dict(id="c13-search-touches-mesh", what="search step shrinks the mesh", path=P_BADS, functions=[B + "._search_step_"],
         old="        fval_old = self.fval\n", new="        fval_old = self.fval\n        self.mesh_size_integer -= 1\n", expect="mesh_untouched"),
]

MUT["C03"] = [
    dict(id="c03-no-reset", what="search_count never reset", path=P_BADS, functions=[B + ".optimize"],
         old="                self.optim_state[\"search_count\"] = 0\n                if (", new="                if (", expect="optimize"),
    dict(id="c03-no-poll-incr", what="poll iteration counter not advanced", path=P_BADS, functions=[B + ".optimize"],
         old="                    poll_iteration += 1\n                    self.optim_state[\"iter\"] = poll_iteration", new="                    self.optim_state[\"iter\"] = poll_iteration", expect="variant-decreases"),
    dict(id="c03-budget-gt", what="budget test with > instead of >=", path=P_BADS, functions=[B + ".optimize"],
         old="                self.function_logger.func_count\n                >= self.options[\"max_fun_evals\"]", new="                self.function_logger.func_count\n                > self.options[\"max_fun_evals\"]", expect="optimize"),
    dict(id="c03-poll-guard-le", what="poll loop guarded by <= budget", path=P_BADS, functions=[B + "._poll_step_"],
         old="            and self.function_logger.func_count < self.options[\"max_fun_evals\"]\n            and poll_count",
         new="            and self.function_logger.func_count <= self.options[\"max_fun_evals\"]\n            and poll_count", expect="budget"),
    dict(id="c03-search-count-skip", what="search_count not advanced on the search attempt", path=P_BADS, functions=[B + "._search_step_"],
         old="        self.optim_state[\"search_count\"] += 1\n", new="        self.optim_state[\"search_count\"] += 0\n", expect="search_counted"),
    dict(id="c03-msg-swap", what="max_iter message used for the budget condition", path=P_BADS, functions=[B + ".optimize"],
         old="                msg = \"Optimization terminated: reached maximum number of function evaluations options['max_fun_evals'].\"",
         new="                msg = \"Optimization terminated: reached maximum number of iterations options['max_iter'].\"", expect="msg_truth"),
    dict(id="c03-maxiter-off", what="max_iter test off by one", path=P_BADS, functions=[B + ".optimize"],
         old="            if poll_iteration >= self.options[\"max_iter\"] - 1:", new="            if poll_iteration >= self.options[\"max_iter\"] + 1:", expect="optimize"),
    dict(id="c03-no-reserve", what="final-sample reserve not carved out of the budget", path=P_BADS, functions=[B + "._init_optimization_"],
         old="            self.options[\"max_fun_evals\"] = (\n                self.options[\"max_fun_evals\"]\n                - self.options[\"noise_final_samples\"]\n            )",
         new="            pass", expect="reserve"),
    dict(id="c03-stale-budget", what="termination test uses the budget read before the noisy carve-out", path=P_BADS, functions=[B + ".optimize"],
         old="        gp, Ns_gp, sn2hpd, hyp_dict = self._init_optimization_()\n        \n", new="        max_fe = self.options[\"max_fun_evals\"]\n        gp, Ns_gp, sn2hpd, hyp_dict = self._init_optimization_()\n        \n",
         old2=None, expect="optimize", extra=[("                >= self.options[\"max_fun_evals\"]\n            ):\n                is_finished = True", "                >= max_fe\n            ):\n                is_finished = True")]),
]


P_CC = "pybads/function_logger/constraints_check.py"
P_VT = "pybads/variable_transformer/variables_transformer.py"
CC = "pybads.function_logger.constraints_check.contraints_check"
VT = "pybads.variable_transformer.variables_transformer.VariableTransformer"

MUT["C10"] = [
    dict(id="c10-zero-sd-accepted", what="a reported SD of exactly zero is accepted (as in a second-round seeded change)", path=P_FL, functions=[FL + ".__call__"],
         old="            not np.isfinite(fsd) or not np.isreal(fsd) or fsd <= 0.0\n        ):\n            error_message = \"\"\"FunctionLogger:InvalidNoiseValue\n                The returned estimated SD (second function output)\n                must be a finite, positive real-valued scalar (returned SD:{}\"\"\"\n            raise ValueError(error_message.format(str(fsd)))\n\n        # record timer stats",
         new="            not np.isfinite(fsd) or not np.isreal(fsd) or fsd < 0.0\n        ):\n            error_message = \"\"\"FunctionLogger:InvalidNoiseValue\n                The returned estimated SD (second function output)\n                must be a finite, positive real-valued scalar (returned SD:{}\"\"\"\n            raise ValueError(error_message.format(str(fsd)))\n\n        # record timer stats",
         expect="accepted_sd_is_positive"),
    dict(id="c10-swallow", what="logger swallows the target's exception and returns NaN", path=P_FL, functions=[FL + ".__call__"],
         old="                    + str(x_orig),\n                )\n            raise", new="                    + str(x_orig),\n                )\n            return np.nan, None, None", expect="target_did_not_raise"),
    dict(id="c10-count-early", what="func_count incremented before the value is validated", path=P_FL, functions=[FL + ".__call__"],
         old="        wrong_format_target_function = False\n        try:", new="        self.func_count += 1\n        wrong_format_target_function = False\n        try:", expect="__call__"),
    dict(id="c10-poll-try", what="poll evaluation wrapped in try/except", path=P_BADS, functions=[B + "._poll_step_"],
         old="            y_poll, y_sd_poll, f_idx_new = self.function_logger(u_new)\n",
         new="            try:\n                y_poll, y_sd_poll, f_idx_new = self.function_logger(u_new)\n            except Exception:\n                break\n", expect="target_failure_not_swallowed"),
    dict(id="c10-retype", what="target exception re-created with type(err)(message)", path=P_FL, functions=[FL + ".__call__"],
         old="                    + str(x_orig),\n                )\n            raise", new="                    + str(x_orig),\n                )\n            raise type(err)(str(err))", expect="raise::"),
]

MUT["C12"] = [
    dict(id="c12-init-xn-zero", what="constructor starts with one phantom record", path=P_FL, functions=[FL + ".__init__"],
         old="        self.Xn: int = -1  # Last filled entry", new="        self.Xn: int = 0  # Last filled entry", expect="log_well_formed_and_empty"),
    dict(id="c12-init-short-flags", what="flag vector shorter than the log", path=P_FL, functions=[FL + ".__init__"],
         old="        self.X_flag = np.full((cache_size,), False, dtype=bool)", new="        self.X_flag = np.full((cache_size - 1,), False, dtype=bool)", expect="log_well_formed_and_empty"),
    dict(id="c12-zero-filled-growth", what="one log array grows with zeros instead of NaN (as in the seeded change)", path=P_FL, functions=[FL + "._expand_arrays"],
         old="        self.X = np.append(\n            self.X, np.full([resize_amount, self.D], np.nan), axis=0\n        )",
         new="        self.X = np.pad(self.X, ((0, resize_amount), (0, 0)))", expect="scan::logger::new_log_rows_are_filled_with_nan"),
    dict(id="c12-grow-zero", what="cache grows by floor(Xn/2) (0 at Xn=1)", path=P_FL, functions=[FL + "._expand_arrays"],
         old="resize_amount = int(np.max((np.ceil(self.Xn / 2), 1)))", new="resize_amount = int(np.floor(self.Xn / 2))", expect="grows"),
    dict(id="c12-yorig-shift", what="original value stored one row off", path=P_FL, functions=[FL + "._record"],
         old="            self.Y_orig[self.Xn] = fval_orig", new="            self.Y_orig[self.Xn - 1] = fval_orig", expect="_record"),
    dict(id="c12-nevals-reset", what="observation counts reset on growth", path=P_FL, functions=[FL + "._expand_arrays"],
         old="        self.n_evals = np.append(\n            self.n_evals, np.zeros([resize_amount, 1]), axis=0\n        )", new="        self.n_evals = np.zeros([self.X.shape[0], 1])", expect="prefix_preserved"),
    dict(id="c12-flag-missing", what="new record not flagged", path=P_FL, functions=[FL + "._record"],
         old="            self.X_flag[self.Xn] = True\n", new="", expect="wf"),
    dict(id="c12-norecord-writes", what="no-record evaluation overwrites the logged value", path=P_FL, functions=[FL + "._record"],
         old="                self.n_evals[last_idx] += 1\n                return fval_orig, last_idx", new="                self.n_evals[last_idx] += 1\n                self.Y[last_idx] = fval_orig\n                return fval_orig, last_idx", expect="norecord_keeps_log"),
]

MUT["C12"].append(dict(id="c12-merge-any-coordinate", what="merge index taken from the element-wise (2-D) comparison", path=P_FL, functions=[FL + "._record"],
     old="                    idx = np.argwhere(duplicate_flag.all(axis=1))[0, 0]", new="                    idx = np.argwhere(duplicate_flag)[0, 0]", expect="partial_coincidence"))

MUT["C17"] = [
    dict(id="c17-cons-sign", what="constraint filter keeps violators", path=P_CC, functions=[CC], old="        idx = C <= 0", new="        idx = C >= 0", expect="feasible"),
    dict(id="c17-no-dedupe", what="row de-duplication removed", path=P_CC, functions=[CC],
         old="    _, idx_sort = np.unique(U_new, axis=0, return_index=True)\n    U_new = U_new[np.sort(idx_sort), :]", new="    idx_sort = np.argsort(U_new[:, 0])\n    U_new = U_new[np.sort(idx_sort), :]", expect="pairwise_distinct"),
    dict(id="c17-no-upper-clamp", what="projection clamps to the lower bound only", path=P_CC, functions=[CC], old="        U_new = np.maximum(np.minimum(U, ub), lb)", new="        U_new = np.maximum(U, lb)", expect="in_box"),
    dict(id="c17-drop-only-above", what="drop filter ignores the lower bound", path=P_CC, functions=[CC],
         old="        idx = np.any(U > ub, axis=1) | np.any(U < lb, axis=1)", new="        idx = np.any(U > ub, axis=1)", expect="in_box"),
    dict(id="c17-single-row-skip", what="constraint filter skipped for single-row sets", path=P_CC, functions=[CC],
         old="    if non_box_cons is not None:", new="    if non_box_cons is not None and len(U_new) > 1:", expect="feasible"),
]

MUT["C01"] = [
    dict(id="c01-ub-search-outside", what="upper search bound stepped outwards (as in a second-round seeded change)", path=P_BADS, functions=[B + "._update_search_bounds_#C01"],
         old="            ub_search[ub_search > ub] - self.optim_state[\"search_mesh_size\"]", new="            ub_search[ub_search > ub] + self.optim_state[\"search_mesh_size\"]", expect="search_box_inside_hard_box"),
    dict(id="c01-orig-ub-plausible", what="plausible upper bound recorded as the hard bound the clamp uses", path=P_VT, functions=[VT + ".__init__"],
         old="        self.orig_ub = ub.copy()", new="        self.orig_ub = pub.copy()", expect="original_hard_bounds_recorded"),
    dict(id="c01-orig-lb-swapped", what="upper bound recorded as the lower hard bound", path=P_VT, functions=[VT + ".__init__"],
         old="        self.orig_lb = lb.copy()", new="        self.orig_lb = ub.copy()", expect="VariableTransformer.__init__"),
    dict(id="c01-inv-no-upper", what="inverse transform clamps only from below", path=P_VT, functions=[VT + ".inverse_transf"],
         old="        x = np.minimum(\n            np.maximum(x, self.orig_lb), self.orig_ub\n        )", new="        x = np.maximum(x, self.orig_lb)", expect="clamped"),
    dict(id="c01-fwd-wrong-bound", what="forward transform clamps against the original bounds", path=P_VT, functions=[VT + ".__call__"],
         old="            np.maximum(y, self.lb), self.ub", new="            np.maximum(y, self.orig_lb), self.orig_ub", expect="clamped"),
    dict(id="c01-clamp-before-ginv", what="clamp applied to the input instead of the output", path=P_VT, functions=[VT + ".inverse_transf"],
         old="        x = self.ginv(input)\n        x = np.minimum(\n            np.maximum(x, self.orig_lb), self.orig_ub\n        )", new="        y = np.minimum(np.maximum(input, self.lb), self.ub)\n        x = self.ginv(y)", expect="clamped"),
    dict(id="c01-target-on-internal", what="target called on internal coordinates", path=P_FL, functions=[FL + ".__call__"],
         old="            fun_res = self.fun(x_orig)", new="            fun_res = self.fun(x)", expect="target_arg_in_hard_box"),
    dict(id="c01-result-unclamped", what="result x computed with the raw inverse map", path=P_BADS, functions=[B + ".optimize"],
         old="        self.x = self.var_transf.inverse_transf(self.u)", new="        self.x = self.var_transf.ginv(np.atleast_2d(self.u))[0]", expect="returned_x_in_hard_box"),
    dict(id="c01-cons-arg-internal", what="constraint evaluated on internal coordinates", path=P_CC, functions=[CC],
         old="        C = non_box_cons(X)", new="        C = non_box_cons(U_new)", expect="constraint_arg_in_hard_box"),
]


MUT["C04"] = [
    dict(id="c04-sign", what="improvement computed as f_new - f_base", path=P_BADS, functions=[B + "._poll_step_", B + "._search_step_"],
         old="            z = f_base - f_new\n        else:\n            # This needs to be corrected -- but for q=0.5 it does not matter\n            mu = f_base - f_new",
         new="            z = f_base - f_new\n        else:\n            # This needs to be corrected -- but for q=0.5 it does not matter\n            mu = f_new - f_base", expect="c04"),
    dict(id="c04-argmax", what="incumbent := argmax over the initial design", path=P_BADS, functions=[B + "._init_mesh_"],
         old="                idx_yval = np.argmin(\n                    self.function_logger.Y[: self.function_logger.Xn + 1]\n                )",
         new="                idx_yval = np.argmax(\n                    self.function_logger.Y[: self.function_logger.Xn + 1]\n                )", expect="c04_incumbent_minimal"),
    dict(id="c04-search-always-moves", what="search moves the incumbent even without improvement", path=P_BADS, functions=[B + "._search_step_"],
         old="        # A search improvement implies an update of the incumbent\n        if is_search_improved:", new="        # A search improvement implies an update of the incumbent\n        if is_search_improved or u_search_set.size > 0:", expect="c04_incumbent_minimal"),
    dict(id="c04-running-best-base", what="poll improvement measured against the running best poll point", path=P_BADS, functions=[B + "._poll_step_"],
         old="            poll_improvement = self._eval_improvement_(\n                self.fval,\n                f_poll,\n                self.fsd,\n                f_sd_poll,",
         new="            poll_improvement = self._eval_improvement_(\n                f_poll_best,\n                f_poll,\n                f_sd_poll_best,\n                f_sd_poll,", expect="c04"),
    dict(id="c04-wrong-value", what="incumbent value taken from the GP estimate slot of another point", path=P_BADS, functions=[B + "._poll_step_"],
         old="                y_poll_best = y_poll\n", new="                y_poll_best = y_poll_best\n", expect="c04"),
    dict(id="c04-result-other-point", what="returned x computed from u instead of the incumbent after a late move", path=P_BADS, functions=[B + ".optimize"],
         old="        self.x = self.var_transf.inverse_transf(self.u)", new="        self.x = self.var_transf.inverse_transf(self.u_best + self.mesh_size)", expect="result_is_best_evaluated_point"),
]


MUT["C02"] = [
    dict(id="c02-cons-sign", what="constraint filter keeps violators", path=P_CC, functions=[CC], old="        idx = C <= 0", new="        idx = C >= 0", expect="feasible"),
    dict(id="c02-poll-unfiltered", what="poll set not filtered by the constraint", path=P_BADS, functions=[B + "._poll_step_"],
         old="                    False,\n                    self.non_box_cons,\n                )", new="                    False,\n                    None,\n                )", expect="_poll_step_"),
    dict(id="c02-search-eval-before-filter", what="search candidate taken from the unfiltered set", path=P_BADS, functions=[B + "._search_step_"],
         old="        u_search_set = contraints_check(\n            u_search_set,\n", new="        u_search_raw = u_search_set\n        u_search_set = contraints_check(\n            u_search_set,\n",
         extra=[("            u_search = u_search_set[index_acq]", "            u_search = u_search_raw[index_acq]")], expect="_search_step_"),
    dict(id="c02-init-grid-after-filter", what="initial design snapped to the grid after the feasibility filter", path=P_BADS, functions=[B + "._init_mesh_"],
         old="                for u_idx in range(len(u1)):\n                    self.function_logger(u1[u_idx])", new="                u1 = force_to_grid(u1, self.optim_state[\"search_mesh_size\"])\n                for u_idx in range(len(u1)):\n                    self.function_logger(u1[u_idx])", expect="feasible_point"),
    dict(id="c02-no-snapped-x0-check", what="mesh-snapped x0 not re-checked", path=P_BADS, functions=[B + "._init_optim_state_"],
         old="        if self.non_box_cons is not None and \\\n            np.any(self.non_box_cons(self.var_transf.inverse_transf(u0)) > 0):", new="        if False:", expect="snapped_start_feasible"),
    dict(id="c02-final-sample-elsewhere", what="final samples taken at a shifted point", path=P_BADS, functions=[B + ".optimize"],
         old="                    y, y_sd, _ = self.function_logger(\n                        self.u, record_duplicate_data=False\n                    )", new="                    y, y_sd, _ = self.function_logger(\n                        self.u + self.mesh_size, record_duplicate_data=False\n                    )", expect="feasible_point"),
    dict(id="c02-single-row-skip", what="constraint filter skipped for single-row sets", path=P_CC, functions=[CC],
         old="    if non_box_cons is not None:", new="    if non_box_cons is not None and len(U_new) > 1:", expect="feasible"),
]


def scan_c02(index, registry):
    """Nothing reachable from BADS.__init__ calls the target (so a rejected start never costs an evaluation)."""
    from pyvc import frames
    from pyvc.verify import VEngine
    from pyvc.vals import Ctx, set_ctx
    set_ctx(Ctx())
    eng = VEngine(index, registry)
    fi = index.find(B + ".__init__")
    eng.func = fi
    eng.frame_cls = [fi.cls]
    fr = frames.frame_of(eng, fi)
    ok = not fr.may_call_target
    return scans.target_call_sites(index, registry) + [{"name": "scan::constructor_never_calls_target", "kind": "coverage", "top": True, "result": "unsat" if ok else "sat",
            "secs": 0.0, "model": {"calls": sorted(fr.calls)[:20]}}]


OR = "pybads.bads.optimize_result.OptimizeResult"
P_OR = "pybads/bads/optimize_result.py"
MUT["C19"] = [
    dict(id="c19-wrong-yval", what="recorded observed value is not the incumbent's observation", path=P_BADS, functions=[B + ".optimize"],
         old="                    \"yval\", float(self.yval), poll_iteration", new="                    \"yval\", float(self.yval) + 1.0, poll_iteration", expect="c19"),
    dict(id="c19-func-count-ahead", what="recorded func_count runs ahead of the real count", path=P_BADS, functions=[B + ".optimize"],
         old="                    \"func_count\",\n                    self.function_logger.func_count,", new="                    \"func_count\",\n                    self.function_logger.func_count + 1,", expect="c19_func_count"),
    dict(id="c19-x-not-image", what="recorded x computed from another point", path=P_BADS, functions=[B + ".optimize"],
         old="                    self.var_transf.inverse_transf(self.u.flatten()),\n                    poll_iteration,", new="                    self.var_transf.inverse_transf(self.u_best.flatten() + self.mesh_size),\n                    poll_iteration,", expect="c19_recorded_x"),
    dict(id="c19-result-count", what="result func_count taken from the number of logged points", path=P_OR, functions=[OR + ".set_attributes"],
         old="        self[\"func_count\"] = bads.function_logger.func_count", new="        self[\"func_count\"] = bads.function_logger.Xn + 1", expect="counts"),
    dict(id="c19-budget-check-after-record", what="budget test moved after the history record", path=P_BADS, functions=[B + ".optimize"],
         old="            msg = \"\"\n            # Check termination conditions\n            if (\n                self.function_logger.func_count\n                >= self.options[\"max_fun_evals\"]\n            ):\n                is_finished = True\n                # exit_flag = 0\n                msg = \"Optimization terminated: reached maximum number of function evaluations options['max_fun_evals'].\"\n",
         new="            msg = \"\"\n", expect="optimize",
         extra=[("            # Re-evaluate all noisy estimates at the end of the iteration\n", "            if self.function_logger.func_count >= self.options[\"max_fun_evals\"]:\n                is_finished = True\n                msg = \"Optimization terminated: reached maximum number of function evaluations options['max_fun_evals'].\"\n                self.optim_state[\"termination_msg\"] = msg\n            # Re-evaluate all noisy estimates at the end of the iteration\n")]),
]


MUT["C05"] = [
    dict(id="c05-median", what="final estimate is the median of the samples", path=P_BADS, functions=[B + ".optimize"],
         old="                self.fval = np.mean(yval_vec).item()", new="                self.fval = np.median(yval_vec).item()", expect="fval_is_mean"),
    dict(id="c05-no-abs", what="noise test without the absolute value", path=P_BADS, functions=[B + "._init_mesh_"],
         old="            if np.abs(self.yval - yval_bis) > self.options[\"tol_noise\"]:", new="            if (self.yval - yval_bis) > self.options[\"tol_noise\"]:", expect="noise_detected_iff"),
    dict(id="c05-isclose", what="noise test through np.isclose (hidden relative tolerance)", path=P_BADS, functions=[B + "._init_mesh_"],
         old="            if np.abs(self.yval - yval_bis) > self.options[\"tol_noise\"]:", new="            if not np.isclose(self.yval, yval_bis, atol=self.options[\"tol_noise\"]):", expect="noise_detected_iff"),
    dict(id="c05-stale-sample", what="yval_vec filled with the old observation instead of the fresh sample", path=P_BADS, functions=[B + ".optimize"],
         old="                    yval_vec[i_sample] = y\n", new="                    yval_vec[i_sample] = self.yval\n", expect="c05_fresh_samples"),
    dict(id="c05-wrong-iterate", what="final point taken one iterate off", path=P_BADS, functions=[B + ".optimize"],
         old="            self.u = self.iteration_history.get(\"u\")[min_q_beta_idx]\n            self.u_best = self.u.copy()", new="            self.u = self.iteration_history.get(\"u\")[min_q_beta_idx - 1]\n            self.u_best = self.u.copy()", expect="returned_x_evaluated_earlier"),
    dict(id="c05-sem", what="fsd is the standard deviation, not the standard error", path=P_BADS, functions=[B + ".optimize"],
         old="                self.fsd = (np.std(yval_vec) / np.sqrt(yval_vec.size)).item()", new="                self.fsd = np.std(yval_vec).item()", expect="fval_is_mean"),
    dict(id="c05-sample-elsewhere", what="final samples taken at a shifted point", path=P_BADS, functions=[B + ".optimize"],
         old="                    y, y_sd, _ = self.function_logger(\n                        self.u, record_duplicate_data=False\n                    )", new="                    y, y_sd, _ = self.function_logger(\n                        self.u + self.mesh_size, record_duplicate_data=False\n                    )", expect="c05_samples_at_point"),
    dict(id="c05-no-reserve", what="final-sample reserve not carved out of the budget", path=P_BADS, functions=[B + "._init_optimization_"],
         old="            self.options[\"max_fun_evals\"] = (\n                self.options[\"max_fun_evals\"]\n                - self.options[\"noise_final_samples\"]\n            )",
         new="            pass", expect="reserve"),
]


MUT["C11"] = [
    dict(id="c11-gamma-full-width", what="gamma = pub - plb (plausible bounds map to -1/2, 1/2)", path=P_VT, functions=[VT + ".__create_hypercube_trans__"],
         old="        gamma = 0.5 * (self.pub - self.plb)", new="        gamma = self.pub - self.plb", expect="unit_"),
    dict(id="c11-decade-strict", what="decade rule with > instead of >=", path=P_VT, functions=[VT + ".__create_hypercube_trans__"],
         old="                and (self.pub[:, i] / self.plb[:, i] >= 10).item()", new="                and (self.pub[:, i] / self.plb[:, i] > 10).item()", expect="processed_follow_rule"),
    dict(id="c11-no-abs", what="log of the signed value", path=P_VT, functions=[VT + ".__create_hypercube_trans__"],
         old="            (np.log(np.abs(x) + (x == 0)) - mu) / gamma, self.apply_log_t", new="            (np.log(x + (x == 0)) - mu) / gamma + 0 * np.abs(x), self.apply_log_t", expect="__create_hypercube_trans__"),
    dict(id="c11-ginv-sign", what="inverse affine map with the wrong sign", path=P_VT, functions=[VT + ".__create_hypercube_trans__"],
         old="            ginv = lambda y: gamma * y + mu\n", new="            ginv = lambda y: mu - gamma * y\n", expect="inverse_increasing_affine"),
    dict(id="c11-fwd-clamp-orig", what="forward clamp against the original bounds", path=P_VT, functions=[VT + ".__call__"],
         old="            np.maximum(y, self.lb), self.ub", new="            np.maximum(y, self.orig_lb), self.orig_ub", expect="clamped"),
    dict(id="c11-mask-by-multiplication", what="maskindex by multiplication (inf * 0 = NaN)", path=P_VT, functions=[VT + ".__create_hypercube_trans__"],
         old="    result = vector.copy()\n    result[:, ~bool_index.flatten()] = 0\n    return result", new="    return vector * bool_index", expect="transformed_hard_bounds_are_numbers"),
    dict(id="c11-order-permissive", what="order check accepts plb == pub", path=P_VT, functions=[VT + ".__create_hypercube_trans__"],
         old="            and np.all(self.plb < self.pub)\\", new="            and np.all(self.plb <= self.pub)\\", expect="order"),
]


P_PM = "pybads/poll/poll_mads_2n.py"
PMQ = "pybads.poll.poll_mads_2n.poll_mads_2n"
MUT["C14"] = [
    dict(id="c14-tril-diag", what="np.tril(D, 0) keeps the random diagonal", path=P_PM, functions=[PMQ], old="        D = np.tril(D, -1)", new="        D = np.tril(D, 0)", expect="diagonal_plus_minus_n_max"),
    dict(id="c14-zero-diag", what="diagonal may be zero", path=P_PM, functions=[PMQ], old="    diag = n_max * 2 * (rnd.randint(1, 3, dim_x) - 1.5)", new="    diag = n_max * 2 * (rnd.randint(0, 3, dim_x) - 1.0)", expect="diagonal_plus_minus_n_max"),
    dict(id="c14-same-sign", what="second half not negated", path=P_PM, functions=[PMQ], old="    B_new = np.vstack((D, -D))", new="    B_new = np.vstack((D, D))", expect="second_half_negated"),
    dict(id="c14-no-unscale", what="poll scale not divided out", path=P_PM, functions=[PMQ], old="    D = D / poll_scale\n", new="    D = D * 1.0\n", expect="first_half_is_scaled_basis"),
    dict(id="c14-upper", what="strictly upper part kept as well", path=P_PM, functions=[PMQ], old="        D = np.tril(D, -1)", new="        D = D - np.tril(D, 0) + np.tril(D, -1)", expect="lower_triangular"),
    dict(id="c14-poll-3D", what="poll loop allows 3D evaluations", path=P_BADS, functions=[B + "._poll_step_"], old="            and poll_count < self.D * 2", new="            and poll_count < self.D * 3", expect="c14_at_most_2D"),
]


P_ES = "pybads/search/es_search.py"
P_HEDGE = "pybads/search/search_hedge.py"
ESQ = "pybads.search.es_search.ESSearch.__call__"
HQ = "pybads.search.search_hedge.ESSearchHedge.__call__"
MUT["C18"] = [
    dict(id="c18-lb-search-below", what="lower search bound moved the wrong way", path=P_BADS, functions=[B + "._update_search_bounds_"],
         old="            lb_search[lb_search < lb] + self.optim_state[\"search_mesh_size\"]", new="            lb_search[lb_search < lb] - self.optim_state[\"search_mesh_size\"]", expect="search_box_inside_hard_box"),
    dict(id="c18-ub-search-above", what="upper search bound not pulled back inside", path=P_BADS, functions=[B + "._update_search_bounds_"],
         old="        ub_search[ub_search > ub] = (\n            ub_search[ub_search > ub] - self.optim_state[\"search_mesh_size\"]\n        )", new="        pass", expect="search_box_inside_hard_box"),
    dict(id="c18-double-step", what="upper bound moved back by five mesh steps (box can become empty)", path=P_BADS, functions=[B + "._update_search_bounds_"],
         old="            ub_search[ub_search > ub] - self.optim_state[\"search_mesh_size\"]", new="            ub_search[ub_search > ub] - 5 * self.optim_state[\"search_mesh_size\"]", expect="search_box_nonempty"),
    dict(id="c18-return-last", what="the worst kept candidate is proposed", path=P_ES, functions=[ESQ], old="        return us[0], z[0]", new="        return us[-1], z[-1]", expect="proposal_has_lowest_acquisition"),
    dict(id="c18-sort-desc", what="candidates ordered by descending acquisition", path=P_ES, functions=[ESQ], old="            z_idx = np.argsort(z_candidates)", new="            z_idx = np.argsort(-z_candidates)", expect="c18_kept_sorted_prefix"),
    dict(id="c18-clobber", what="fallback overwrites the accumulated acquisition values (the repaired defect)", path=P_ES, functions=[ESQ],
         old="                z_new = np.random.rand(u_new.shape[0])", new="                z_candidates = np.random.rand(u_new.shape[0])", expect="c18_pool_is_every_survivor"),
    dict(id="c18-no-filter", what="second and later ES generations are not filtered", path=P_ES, functions=[ESQ],
         old="            u_new = contraints_check(\n                u_new,", new="            u_new = u_new if i > 0 else contraints_check(\n                u_new,", expect="c18_survivors_in_box"),
    dict(id="c18-z-of-other", what="acquisition values paired with the previous generation", path=P_ES, functions=[ESQ],
         old="                us_candidates = np.append(\n                    us_candidates, u_new, axis=0\n                )", new="                us_candidates = np.append(\n                    u_new, us_candidates, axis=0\n                )", expect="c18_pool_is_every_survivor"),
    dict(id="c18-hedge-floor", what="exploration floor mixed in with the wrong weight", path=P_HEDGE, functions=[HQ],
         old="        self.prob = self.prob * (1 - self.n_funs * self.gamma) + self.gamma", new="        self.prob = self.prob * (1 - self.gamma) + self.gamma", expect="probabilities_sum_to_one"),
    dict(id="c18-hedge-nonorm", what="softmax weights not normalised", path=P_HEDGE, functions=[HQ],
         old="        self.prob = self.prob / np.sum(\n            np.exp(self.beta * (self.g - np.max(self.g)))\n        )", new="        self.prob = self.prob / np.max(\n            np.exp(self.beta * (self.g - np.max(self.g)))\n        )", expect="probabilities_sum_to_one"),
    dict(id="c18-hedge-below-floor", what="floor subtracted instead of added", path=P_HEDGE, functions=[HQ],
         old="        self.prob = self.prob * (1 - self.n_funs * self.gamma) + self.gamma", new="        self.prob = self.prob * (1 + self.n_funs * self.gamma) - self.gamma", expect="probabilities_at_least_floor"),
    dict(id="c18-two-evals", what="search point evaluated twice", path=P_BADS, functions=[B + "._search_step_"],
         old="            y_search, f_sd_search, idx = self.function_logger(u_search)", new="            y_search, f_sd_search, idx = self.function_logger(u_search)\n            y_search, f_sd_search, idx = self.function_logger(u_search)", expect="at_most_one_eval"),
]


P_GPT = "pybads/bads/gaussian_process_train.py"
P_ACQ = "pybads/acquisition_functions/acq_fcn_lcb.py"
GPTQ = "pybads.bads.gaussian_process_train."
ACQQ = "pybads.acquisition_functions.acq_fcn_lcb.acq_fcn_lcb"
MUT["C15"] = [
    dict(id="c15-stale-sd-at-poll-add", what="poll step hands the incumbent's GP SD to the incremental add instead of the SD just reported", path=P_BADS,
         functions=[B + "._poll_step_@@pre::pair_is_the_latest_evaluation"],
         old="                    u_new,\n                    y_poll,\n                    y_sd_poll,\n", new="                    u_new,\n                    y_poll,\n                    f_sd_poll_best,\n",
         expect="pair_is_the_latest_evaluation"),
    dict(id="c15-farthest", what="the farthest points are taken", path=P_GPT, functions=[GPTQ + "get_grid_search_neighbors"],
         old="    return (U[sort_idx[0:ntrain]], Y[sort_idx[0:ntrain]], res_S)", new="    return (U[sort_idx[-ntrain:]], Y[sort_idx[-ntrain:]], res_S)", expect="ordered_by_distance"),
    dict(id="c15-y-unsorted", what="values not permuted with the inputs", path=P_GPT, functions=[GPTQ + "get_grid_search_neighbors"],
         old="    return (U[sort_idx[0:ntrain]], Y[sort_idx[0:ntrain]], res_S)", new="    return (U[sort_idx[0:ntrain]], Y[0:ntrain], res_S)", expect="training_pairs_are_logged_evaluations"),
    dict(id="c15-sd-not-squared", what="supplied SD handed to the GP as a variance (the repaired defect)", path=P_GPT, functions=[GPTQ + "get_grid_search_neighbors"],
         old="        res_S = function_logger.S[sort_idx[0:ntrain]] ** 2", new="        res_S = function_logger.S[sort_idx[0:ntrain]]", expect="training_pairs_are_logged_evaluations"),
    dict(id="c15-cap-off-by-one", what="one logged point too few is allowed", path=P_GPT, functions=[GPTQ + "get_grid_search_neighbors"],
         old="    ntrain = np.minimum(ntrain, function_logger.X_max_idx +1)", new="    ntrain = np.minimum(ntrain, function_logger.X_max_idx)", expect="size_respects_configured_minimum_and_maximum"),
    dict(id="c15-min-ignored", what="configured minimum ignored", path=P_GPT, functions=[GPTQ + "get_grid_search_neighbors"],
         old="            options[\"n_train_min\"],\n", new="            0,\n", expect="size_respects_configured_minimum_and_maximum"),
    dict(id="c15-fevals-sd", what="initial training set uses SD instead of variance", path=P_GPT, functions=[GPTQ + "_get_fevals_data"],
         old="        s2 = function_logger.S[function_logger.X_flag] ** 2", new="        s2 = function_logger.S[function_logger.X_flag]", expect="initial_training_pairs_are_logged_evaluations"),
    dict(id="c15-add-sd", what="incremental add appends the SD (the repaired defect)", path=P_GPT, functions=[GPTQ + "add_and_update_gp"],
         old="        gp.s2 = np.concatenate((gp.s2, np.atleast_2d(sd_new) ** 2))", new="        gp.s2 = np.concatenate((gp.s2, np.atleast_2d(sd_new)))", expect="supplied_noise_enters_as_variance"),
    dict(id="c15-add-front", what="new pair prepended to the inputs only", path=P_GPT, functions=[GPTQ + "add_and_update_gp"],
         old="    gp.X = np.concatenate((gp.X, np.atleast_2d(x_new)))", new="    gp.X = np.concatenate((np.atleast_2d(x_new), gp.X))", expect="add_and_update_gp"),
    dict(id="c15-lcb-plus", what="upper instead of lower confidence bound", path=P_ACQ, functions=[ACQQ], old="    z = f_mu - sqrt_beta * f_s", new="    z = f_mu + sqrt_beta * f_s", expect="lcb_is_mean_minus_sqrt_beta_times_sd"),
    dict(id="c15-t-off", what="t = func_count instead of func_count + 1", path=P_ACQ, functions=[ACQQ], old="    t = func_count + 1", new="    t = func_count", expect="lcb_is_mean_minus_sqrt_beta_times_sd"),
    dict(id="c15-var-not-sd", what="variance used as standard deviation", path=P_ACQ, functions=[ACQQ], old="    f_s = np.sqrt(f_s2)", new="    f_s = f_s2", expect="mean_and_sd_are_the_gp_prediction"),
]


MUT["C16"] = [
    dict(id="c16-wrong-except", what="retry loop catches the wrong exception class", path=P_GPT, functions=[GPTQ + "_robust_gp_fit_"],
         old="            break\n        except np.linalg.LinAlgError:", new="            break\n        except TypeError:", expect="no-raise"),
    dict(id="c16-one-try", what="only one attempt", path=P_GPT, functions=[GPTQ + "_robust_gp_fit_"], old="    n_try = 10\n", new="    n_try = 1\n", expect="no-raise::UnboundLocalError"),
    dict(id="c16-no-break", what="success does not leave the retry loop", path=P_GPT, functions=[GPTQ + "_robust_gp_fit_"],
         old="                X, Y, s2, hyp0=new_hyp, options=gp_train\n            )\n            break", new="                X, Y, s2, hyp0=new_hyp, options=gp_train\n            )", expect="_robust_gp_fit_"),
    dict(id="c16-x-only", what="only the inputs are dropped after repeated failures", path=P_GPT, functions=[GPTQ + "_robust_gp_fit_"],
         old="                Y = Y[~idx_drop_out]\n", new="", expect="c16_training_set_stays_consistent"),
    dict(id="c16-s2-kept", what="noise vector not shortened with the training set (the repaired defect)", path=P_GPT, functions=[GPTQ + "_robust_gp_fit_"],
         old="                if s2 is not None and not np.isscalar(s2):\n                    s2 = s2[~idx_drop_out]\n", new="", expect="c16_training_set_stays_consistent"),
    dict(id="c16-mask-from-original", what="outlier mask computed from the original targets (as in the seeded change)", path=P_GPT, functions=[GPTQ + "_robust_gp_fit_"],
         old="                    idx_drop_out, (Y > np.percentile(Y, 95)).flatten()", new="                    idx_drop_out, (y_train > np.percentile(y_train, 95)).flatten()", expect="no-raise::ValueError@internal[broadcast]"),
    dict(id="c16-init-no-count", what="initial training: failures not counted, same start point retried for ever", path=P_GPT, functions=[GPTQ + "init_and_train_gp"],
         old="        except np.linalg.LinAlgError:\n            training_failures += 1", new="        except TypeError:\n            training_failures += 1", expect="raised_before_any_fit"),
    dict(id="c16-update-uncaught", what="posterior update failure not caught", path=P_GPT, functions=[GPTQ + "local_gp_fitting"],
         old="        gp.update(hyp=hyp_gp)\n    except np.linalg.LinAlgError:", new="        gp.update(hyp=hyp_gp)\n    except KeyError:", expect="no-raise"),
]


BCQ = [B + "._bounds_check_#D%d" % d for d in (1, 2, 3)]
MUT["C08"] = [
    dict(id="c08-no-order-test", what="second ordering test dropped", path=P_BADS, functions=BCQ[:2],
         old="        # Test order of bounds\n        ordidx = (\n            (lower_bounds <= plausible_lower_bounds)\n            & (plausible_lower_bounds < plausible_upper_bounds)\n            & (plausible_upper_bounds <= upper_bounds)\n        )\n        if np.any(np.invert(ordidx)):",
         new="        # Test order of bounds\n        ordidx = (\n            (lower_bounds <= plausible_lower_bounds)\n            & (plausible_lower_bounds < plausible_upper_bounds)\n            & (plausible_upper_bounds <= upper_bounds)\n        )\n        if False:", expect="normalised_order"),
    dict(id="c08-equal-pb-ok", what="equal plausible bounds accepted", path=P_BADS, functions=BCQ[:1],
         old="        if np.any(plausible_lower_bounds == plausible_upper_bounds):", new="        if False:", expect="_bounds_check_"),
    dict(id="c08-x0-outside-ok", what="start point above the upper bound accepted", path=P_BADS, functions=BCQ[:1],
         old="        if np.any(x0 < lower_bounds) or np.any(x0 > upper_bounds):", new="        if np.any(x0 < lower_bounds):", expect="accepted_definitions_are_valid"),
    dict(id="c08-half-any", what="half-bounded test over all variables at once (the repaired defect)", path=P_BADS, functions=BCQ[1:2],
         old="        if np.any(np.isfinite(lower_bounds) != np.isfinite(upper_bounds)):",
         new="        if np.any(np.isfinite(lower_bounds)) and np.any(np.invert(np.isfinite(upper_bounds))) or np.any(np.invert(np.isfinite(lower_bounds))) and np.any(np.isfinite(upper_bounds)):",
         expect="raise#9::raises_only_for_invalid_definitions"),
    dict(id="c08-half-ok", what="half-bounded variables accepted", path=P_BADS, functions=BCQ[:1],
         old="        if np.any(np.isfinite(lower_bounds) != np.isfinite(upper_bounds)):", new="        if False:", expect="accepted_definitions_are_valid"),
    dict(id="c08-nonfinite-pb-ok", what="infinite plausible bounds accepted", path=P_BADS, functions=BCQ[:1],
         old="        if np.any(np.invert(np.isfinite(plausible_lower_bounds))) or np.any(\n            np.invert(np.isfinite(plausible_upper_bounds))\n        ):", new="        if False:", expect="accepted_definitions_are_valid"),
    dict(id="c08-x0-not-moved", what="start point on the bound is not moved inside", path=P_BADS, functions=BCQ[:1],
         old="            x0 = np.maximum((np.minimum(x0, UB_eff)), LB_eff)", new="            x0 = x0 + 0.0", expect="start_point_strictly_inside_finite_hard_bounds"),
    dict(id="c08-strict-le", what="equal hard and plausible bound rejected", path=P_BADS, functions=BCQ[:1],
         old="            (lower_bounds <= plausible_lower_bounds)\n            & (plausible_lower_bounds < plausible_upper_bounds)\n            & (plausible_upper_bounds <= upper_bounds)\n        )\n        if np.any(np.invert(ordidx)):\n            raise ValueError(\n                \"\"\"bads:StrictBounds: For each variable, hard and\n            plausible bounds should respect the ordering lower_bounds < plausible_lower_bounds",
         new="            (lower_bounds < plausible_lower_bounds)\n            & (plausible_lower_bounds < plausible_upper_bounds)\n            & (plausible_upper_bounds <= upper_bounds)\n        )\n        if np.any(np.invert(ordidx)):\n            raise ValueError(\n                \"\"\"bads:StrictBounds: For each variable, hard and\n            plausible bounds should respect the ordering lower_bounds < plausible_lower_bounds",
         expect="raises_only_for_invalid_definitions_outside_margin_zone"),
]


MUT["C07"] = [
    dict(id="c07-no-reseed", what="seed not re-applied at the start of optimize()", path=P_BADS, functions=[B + "._init_random_seed_"],
         old="        self.optim_state[\"random_seed\"] = self._init_random_seed_()", new="        self.optim_state[\"random_seed\"] = self._random_seed", expect="scan::rng::seeded_before_first_draw::_init_optimization_"),
    dict(id="c07-seed-after-x0", what="constructor seeds after the random start point was drawn", path=P_BADS, functions=[B + "._init_random_seed_"],
         old="        # set up random seed\n        self._init_random_seed_()\n", new="", expect="scan::rng::seeded_before_first_draw::__init__"),
    dict(id="c07-seed-ignored", what="seed option recorded but not applied", path=P_BADS, functions=[B + "._init_random_seed_"],
         old="            np.random.seed(random_seed)\n", new="", expect="scan::rng::seed_is_applied_when_given"),
    dict(id="c07-seed-off", what="seed recorded is not the user's", path=P_BADS, functions=[B + "._init_random_seed_"],
         old="            random_seed = int(self.options[\"random_seed\"])", new="            random_seed = int(self.options[\"random_seed\"]) + 1", expect="seed_recorded"),
    dict(id="c07-sobol-unseeded", what="Sobol design drawn with OS entropy", path="pybads/init_functions/init_sobol.py", functions=[B + "._init_random_seed_"],
         old="    sobol_sampler = Sobol(u0.size, seed=seed)", new="    sobol_sampler = Sobol(u0.size)", expect="scan::rng::sobol_design_seeded_explicitly"),
    dict(id="c07-module-cache", what="module-level cache of hedge state", path="pybads/search/search_hedge.py", functions=[B + "._init_random_seed_"],
         old="        self.count += 1\n", new="        self.count += 1\n        _LAST.append(self.g.copy())\n", extra=[("class ESSearchHedge:", "_LAST = []\n\n\nclass ESSearchHedge:")],
         expect="scan::global_state"),
    dict(id="c07-class-cache", what="class-level dict cache keyed on mu (as in the seeded change)", path=P_ES, functions=[B + "._init_random_seed_"],
         old="        self.mu = mu\n        self.lamb = lamb\n", new="        self.mu = mu\n        self.lamb = lamb\n        ESSearch._cache[mu] = lamb\n",
         extra=[("    \"\"\"An Abstract class describing an Evolutionary Strategy Search.\"\"\"\n", "    \"\"\"An Abstract class describing an Evolutionary Strategy Search.\"\"\"\n    _cache = {}\n")],
         expect="scan::global_state"),
    dict(id="c07-clock", what="wall clock mixed into the search scale", path=P_ES, functions=[B + "._init_random_seed_"],
         old="        self.scale = options_dict[\"es_start\"]", new="        import time\n        self.scale = options_dict[\"es_start\"] * (1 + 1e-9 * (time.time() % 1))", expect="scan::entropy"),
]


def scan_c07(index, registry):
    return scans.rng_typestate(index, registry) + scans.global_state_frame(index, registry) + scans.entropy_sources(index, registry)


P_OPT = "pybads/bads/options.py"
MUT["C20"] = [
    dict(id="c20-defaults-overwrite", what="defaults loaded over user options", path=P_OPT, functions=[],
         old="            if key not in self.get(\"useroptions\") and key != \"useroptions\":", new="            if key != \"useroptions\":", expect="scan::options::defaults_never_overwrite_user_options"),
    dict(id="c20-not-protected", what="user option names not recorded as protected", path=P_OPT, functions=[],
         old="            self[\"useroptions\"].update(user_options.keys())\n", new="", expect="scan::options::user_options_applied_and_recorded_as_protected"),
    dict(id="c20-unknown-accepted", what="unknown option names only warned about", path=P_OPT, functions=[],
         old="                raise ValueError(\"The option {} does not exist.\".format(key))", new="                pass", expect="scan::options::unknown_option_name_raises_ValueError"),
    dict(id="c20-module-cache", what="module-level cache of evaluated defaults (as in the seeded change)", path=P_OPT, functions=[],
         old="        options_list = _read_config_file(options_path)\n", new="        options_list = _read_config_file(options_path)\n        _CACHE[options_path] = options_list\n",
         extra=[("class Options(MutableMapping, dict):", "_CACHE = {}\n\n\nclass Options(MutableMapping, dict):")], expect="scan::global_state"),
    dict(id="c20-clip-x0-in-place", what="caller's x0 clipped in place", path=P_BADS, functions=[],
         old="            x0 = np.maximum((np.minimum(x0, UB_eff)), LB_eff)", new="            x0[:] = np.maximum((np.minimum(x0, UB_eff)), LB_eff)", expect="scan::options::caller_arrays_never_stored_into"),
]


def scan_c20(index, registry):
    return scans.options_structure(index, registry) + scans.global_state_frame(index, registry)


P_FLOG = "pybads/function_logger/function_logger.py"
MUT["C09"] = [
    dict(id="c09-es-empty-index", what="empty survivor set indexed (the repaired defect)", path=P_ES, functions=[ESQ],
         old="        if us.shape[0] == 0:\n            # every candidate was removed by the filter: empty search set\n            return us, z\n", new="", expect="no-raise::IndexError"),
    dict(id="c09-u-search-unbound", what="u_search not set for an empty search set (the repaired defect)", path=P_BADS, functions=[B + "._search_step_"],
         old="            u_search = None\n            y_search = self.yval", new="            y_search = self.yval", expect="no-raise::UnboundLocalError"),
    dict(id="c09-no-empty-branch", what="search step without the empty-set branch", path=P_BADS, functions=[B + "._search_step_"],
         old="        else:\n            # Search set is empty\n            u_search = None\n            y_search = self.yval\n            f_mu_search = self.fval\n            f_sd_search = 0\n            search_dist = 0\n",
         new="", expect="no-raise::UnboundLocalError"),
    dict(id="c09-empty-poll-set", what="poll loop keeps going with an emptied poll set (as in the seeded change)", path=P_BADS, functions=[B + "._poll_step_"],
         old="            if u_poll is None or u_poll.size == 0:\n                break", new="            if u_poll is None:\n                break", expect="no-raise::ValueError@internal[empty-argmin]"),
    dict(id="c09-pool-first-gen", what="candidate pool appended to before it exists", path=P_ES, functions=[ESQ],
         old="            if i == 0:\n                us_candidates = u_new.copy()", new="            if i == 1:\n                us_candidates = u_new.copy()", expect="no-raise::UnboundLocalError"),
]


def scan_c14(index, registry):
    return scans.lean_lemma(index, registry)


def scan_c19(index, registry):
    return scans.deepcopy_on_store(index, registry)


def scan_c01(index, registry):
    return scans.target_call_sites(index, registry)


def panel(pid, quick=6, thorough=36, faults_q=0, faults_t=0, kinds=None, timeout=2400):
    a = ["--prop", pid]
    if kinds:
        a += ["--kinds", kinds]
    return dict(name="panel-" + pid, script="panel.py", args_quick=a + ["--runs", quick, "--faults", faults_q], args_thorough=a + ["--runs", thorough, "--faults", faults_t], timeout=timeout)


def replay(pid, runs=24, faults=0):
    return dict(script="panel.py", args=["--prop", pid, "--runs", runs, "--faults", faults], timeout=2400)


PROPS = {
    "C13": dict(
        level="proof",
        native=[panel('C13', 6, 36)], replay=replay('C13'),
        functions=[B + "._poll_step_", B + ".optimize", B + "._search_step_"],
        mutants=MUT["C13"],
        explanation="Mesh rule as postconditions of _poll_step_ (success: min(k+1,cap); failure: k-1 or k-2 exactly under the stall test; "
                    "mesh_size = 2^k; search exponent <= poll exponent), frame clause of _search_step_, loop invariant k <= cap = 0 of optimize, "
                    "tol_mesh message truth. Preconditions: default improvement policy (no stobads, improvement_quantile 0.5), "
                    "max_poll_grid_number = 0, search_mesh_expand = 0, poll_mesh_multiplier = 2, search_grid_multiplier = 2.",
    ),
    "C10": dict(
        level="proof",
        native=[panel('C10', 4, 16, 6, 40)], replay=replay('C10', 8, 30),
        functions=[FL + ".__call__", B + "._init_mesh_", B + "._init_optimization_", B + "._search_step_", B + "._poll_step_", B + ".optimize"],
        scans=[scan_c03],
        mutants=MUT["C10"],
        explanation="Exceptional contracts: FunctionLogger.__call__ re-raises the target's own exception object (TargetError ghost class, identity kept by "
                    "the bare raise), counts only calls that returned and were validated, logs nothing on failure; every BADS method that calls the logger "
                    "is checked with first-class exceptions: no handler on the path (normal exit implies not ghost.target_raised), honest counts on every exceptional exit. "
                    "Value validation over the kinds model is partial (see assumptions).",
    ),
    "C12": dict(
        level="proof",
        native=[dict(name='logger-reference-model', script='logger_model.py', args_quick=['--histories', 150], args_thorough=['--histories', 3000], timeout=1800)],
        replay=dict(script='logger_model.py', args=['--histories', 1500], timeout=1800),
        functions=[FL + ".__init__", FL + "._expand_arrays", FL + "._record", FL + ".__call__"],
        scans=[lambda index, registry: scans.log_rows_filled_with_nan(index, registry)],
        mutants=MUT["C12"],
        explanation="Data-structure contracts on the log: well-formedness invariant (equal lengths, X_flag[i] <=> i <= Xn, count) established by the constructor and kept by every method, new-record clause over the whole view "
                    "(new row holds (x_orig, x, value), every earlier row of every array unchanged), no-record clause (arrays unchanged), growth clause (prefix preserved, growth >= 1). "
                    "The assumed clause nan_tail (unused rows never equal a point; NaN is not modelled for the log) is backed by a syntactic obligation: every allocation / growth of "
                    "X, X_orig, Y, Y_orig, S fills the new rows with NaN.",
    ),
    "C17": dict(
        level="proof",
        native=[dict(name='witness-c17', script='witness_c17.py', args=[], timeout=120), panel('C17', 6, 36)], replay=replay('C17'),
        functions=[CC],
        mutants=MUT["C17"],
        explanation="Postconditions of contraints_check for every candidate array, box, tolerance and log: rows inside the box filtered against (both projection modes), "
                    "feasible (ghost predicate over points, constraint row-wise deterministic), pairwise distinct; carried through three statement contracts (cuts).",
    ),
    "C01": dict(
        level="proof",
        native=[panel('C01', 6, 36)], replay=replay('C01'),
        functions=[VT + ".__init__", VT + ".inverse_transf", VT + ".__call__", FL + ".__call__", CC, B + ".optimize", B + "._update_search_bounds_#C01"],
        scans=[scan_c01],
        mutants=MUT["C01"],
        explanation="Clamp postconditions of both transform directions for every finite input; the single target call site receives inverse_transf(x)[0] (in the hard box for every x); "
                    "rows handed to non_box_cons by the candidate filter are images of inverse_transf; returned x is an image of inverse_transf.",
    ),
    "C02": dict(
        level="proof",
        native=[panel('C02', 8, 40, kinds="sym,tight,opt_outside")], replay=replay('C02', 40),
        functions=[CC, "pybads.acquisition_functions.acq_fcn_lcb.acq_fcn_lcb", "pybads.poll.poll_mads_2n.poll_mads_2n", FL + ".__call__", B + "._init_optim_state_", B + "._init_mesh_",
                   B + "._init_optimization_", B + "._re_evaluate_history_", B + "._search_step_", B + "._poll_step_", B + ".optimize"],
        scans=[scan_c02],
        # dead code in the real source: `for i in range(len()):` (len() without argument raises TypeError before the loop body)
        dead_ok=["pybads.bads.bads.BADS._init_optim_state_::loop#0::body-reachable"],
        mutants=MUT["C02"],
        explanation="Ghost predicate feasx over points (row-wise deterministic user constraint, T5). The filter returns only feasible rows; the logger requires a feasible point at each "
                    "of its call sites (initial point, noise test, initial design, search, poll, final re-sampling) and hands exactly inverse_transf(x) to the target; invariants: incumbent, "
                    "current point, every logged point, every remaining poll candidate and every history iterate are feasible; the mesh-snapped start is feasible or ValueError.",
    ),
    "C19": dict(
        level="proof",
        native=[dict(name="history-reference-model", script="history_model.py", args_quick=["--histories", 150], args_thorough=["--histories", 3000], timeout=1800),
                panel('C19', 8, 40)], replay=replay('C19', 40),
        functions=[FL + ".__call__", B + "._init_mesh_", B + "._init_optimization_", B + "._re_evaluate_history_", B + "._search_step_", B + "._poll_step_", B + ".optimize",
                   OR + ".set_attributes", OR + ".__setitem__"],
        scans=[scan_c19],
        mutants=MUT["C19"],
        explanation="Main-loop invariants over the iteration history (typed arrays, IterationHistory.record as an assumed, bounded-checked contract): every recorded iterate is a logged "
                    "evaluation with the recorded value (ghost witness index chosen from the incumbent invariant), recorded x == inverse_transf(recorded u), recorded func_count "
                    "non-decreasing and <= the final count, returned x is a recorded iterate (the last one, same value, for deterministic targets; the selected one for noisy targets); "
                    "OptimizeResult.set_attributes field equalities; unknown result keys rejected; structural deep-copy obligations. Container histories: bounded reference model.",
    ),
    "C05": dict(
        level="proof",
        native=[panel('C05', 8, 40, kinds="auto_noise,declared_noise,specified_noise")], replay=replay('C05', 40),
        functions=[FL + ".__call__", B + "._init_mesh_", B + "._init_optimization_", B + "._re_evaluate_history_", B + "._search_step_", B + "._poll_step_", B + ".optimize",
                   OR + ".set_attributes"],
        mutants=MUT["C05"],
        explanation="Ghost sequences RetVal(k), RetSD(k), ArgPt(k) of the k-th target call (defined at the single call site). Noise test: level becomes >= 1 iff |RetVal(n+1)-RetVal(n+2)| > tol_noise, "
                    "both calls at the same point. Tail: the last noise_final_samples calls are at inverse_transf(u) = returned x, yval_vec[k] = RetVal of those calls (plus the recorded observation of the "
                    "selected iterate when only one sample), fval = mean(yval_vec), fsd = std/sqrt(size) (uninterpreted mean/std), ysd_vec = RetSD, returned x is a recorded (earlier evaluated) iterate; budget reserve.",
    ),
    "C11": dict(
        level="proof",
        quick_timeout_ms=40000,  # the two division-monotonicity statement contracts need 20-25 s of nominal budget: keep them away from the limit
        native=[dict(name="transform-sampling", script="transform_sampling.py", args_quick=["--points", 2000], args_thorough=["--points", 200000], timeout=2400)],
        replay=dict(script="transform_sampling.py", args=["--points", 20000], timeout=1200),
        functions=[VT + ".__init__", VT + ".__create_hypercube_trans__", VT + ".__call__", VT + ".inverse_transf"],
        mutants=MUT["C11"],
        explanation="The real closures z, zlog, g, ginv created inside __create_hypercube_trans__ are called symbolically in the postconditions (arbitrary points ghost.x1, ghost.x2, all D): "
                    "plausible bounds map to -1/+1, g increasing (affine and log coordinates), ginv increasing (non-decreasing at the float cap), ginv(g(x)) == x for affine coordinates, "
                    "transformed hard bounds are never NaN, bounds ordered on normal return; the log flag is set exactly when all four bounds are positive and pub/plb >= 10 "
                    "(loop invariant over the NaN-flag indices); clamps of both directions. BOUNDED: rounding error < 1e-9 of the width and the log round trip (sampling).",
    ),
    "C14": dict(
        level="proof",
        native=[dict(name="pollgen-exhaustive", script="pollgen_enum.py", args_quick=["--dmax", 2], args_thorough=["--dmax", 3], timeout=1800), panel('C14', 8, 40)],
        replay=replay('C14', 40),
        functions=[PMQ, B + "._poll_step_", CC],
        scans=[scan_c14],
        mutants=MUT["C14"],
        explanation="Structural obligations on the real poll_mads_2n (all random outcomes, all D, all n_max): n_max integer >= 1 (== 1 for the default mesh ratio), the matrix before permutation is lower "
                    "triangular with diagonal +-n_max and strictly-lower entries in [1-n_max, n_max-1], the result is the transposed row permutation divided column-wise by poll_scale, stacked with its negation, "
                    "shape 2D x D; Lean 4/Mathlib lemma: such a matrix is non-singular, column scaling keeps that, and {+-d_i} of a basis positively spans. In _poll_step_: at most 2D evaluations per poll. "
                    "BOUNDED: exhaustive enumeration of the generator (D <= 3, ratios 1,2,4); panel: every polled point == incumbent + mesh * direction, each direction once.",
    ),
    "C18": dict(
        level="proof",
        native=[dict(name="es-search-bounded", script="es_model.py", args_quick=["--runs", 150, "--mask", 48], args_thorough=["--runs", 1500, "--mask", 300], timeout=1800),
                panel('C18', 6, 30)],
        replay=replay('C18', 30),
        functions=[ESQ, HQ, B + "._search_step_", B + "._update_search_bounds_"],
        mutants=MUT["C18"],
        explanation="ESSearch.__call__ (both strategies share it): loop invariant over the ES generations - accumulated candidates and acquisition values have equal length, every candidate "
                    "is inside [lb_search, ub_search] (postcondition of the real candidate filter), z_candidates[k] is the acquisition value of us_candidates[k], and the kept prefix starts with a "
                    "least element (argsort axioms); at the return: the proposal is one of the surviving candidates, carries its acquisition value, and no surviving candidate has a lower one. "
                    "ESSearchHedge.__call__: probabilities sum to 1 and each is >= gamma (Sum as a linear functional, exp > 0). _search_step_: at most one target evaluation. "
                    "_update_search_bounds_: the mesh-rounded box lies inside the hard box and is not empty (finite bounds containing the unit plausible box, mesh <= 1). "
                    "Candidate generation (random draws, covariance, reproduction) is havoc - irrelevant to the clauses. BOUNDED: the rank-selection mask for every (mu, lambda) <= 48 / 300; "
                    "random ES searches on the real classes with recorded candidate sets; panel monitor on full runs.",
    ),
    "C15": dict(
        level="proof",
        native=[dict(name="gp-training-set-bounded", script="gp_train_model.py", args_quick=["--runs", 150], args_thorough=["--runs", 2000], timeout=1800), panel('C15', 6, 30)],
        replay=replay('C15', 30),
        functions=[GPTQ + "get_grid_search_neighbors", GPTQ + "_get_fevals_data", GPTQ + "add_and_update_gp", ACQQ, FL + "._record",
                   # the two call sites of the incremental add (the callers' other obligations are discharged under C18 / C14)
                   B + "._search_step_@@pre::pair_is_the_latest_evaluation", B + "._poll_step_@@pre::pair_is_the_latest_evaluation"],
        mutants=MUT["C15"],
        explanation="get_grid_search_neighbors: every returned (input, value, variance) triple is a logged row (existential over log rows, points as values; variance == logged SD squared), "
                    "rows are X[argsort(dist)[k]] in ascending distance, every unselected logged point is at least as far as every selected one (argsort inverse), size within "
                    "[min(n, n_train_min), max(n_train_max, n_train_min)] and <= n. _get_fevals_data: the flagged rows with S squared. add_and_update_gp: appends exactly the pair handed in, "
                    "noise as sd squared, earlier rows kept, same GP object returned. acq_fcn_lcb: mean - sqrt(0.2*2*log(D*(fc+1)^2*pi^2/(6*0.1))) * sqrt(s2) for the default schedule. "
                    "The metric itself (udist) is named by a ghost vector (its value is outside the clauses); BOUNDED: recomputation of the metric and of all clauses on random logs; "
                    "panel: every GP training set of full runs consists of logged pairs.",
    ),
    "C16": dict(
        level="proof",
        native=[dict(name="panel-gp-fit-faults", script="panel.py", args_quick=["--prop", "C16", "--runs", 2, "--gpfaults", 18], args_thorough=["--prop", "C16", "--runs", 4, "--gpfaults", 120], timeout=3000)],
        replay=dict(script="panel.py", args=["--prop", "C16", "--runs", 2, "--gpfaults", 60], timeout=3000),
        functions=[GPTQ + "_robust_gp_fit_", GPTQ + "init_and_train_gp", GPTQ + "local_gp_fitting"],
        mutants=MUT["C16"],
        explanation="Exceptional contracts with a ghost fault budget: GP.fit / GP.update(hyp=) (assumed contract on gpyreg) may raise LinAlgError as often as ghost.fault_budget allows. "
                    "_robust_gp_fit_: with fewer than ten failures in a row no exception class leaves the function (LinAlgError is caught on every path; the loop invariant 'passes so far == "
                    "failures so far' makes exhaustion impossible, so `res` is bound - opt-in UnboundLocalError semantics), and every GP.fit attempt receives one target and one noise variance "
                    "per training input, also after points were dropped. init_and_train_gp: the retry loop terminates (variant: (not fitted, fault budget)) and nothing escapes. "
                    "local_gp_fitting: the refit failure is absorbed by _robust_gp_fit_ (call-site preconditions proved), the posterior-update failure is caught. "
                    "BOUNDED: full runs with the k-th hyper-parameter fit(s) failing (single, 2-4 in a row, scattered; all noise modes): optimize() completes and every other run-level "
                    "oracle of the panel (bounds, budget, truthful result, history) still holds.",
    ),
    "C08": dict(
        level="proof",
        native=[dict(name="bounds-grid-bounded", script="bounds_model.py", args_quick=["--grid", 2500, "--multi", 300, "--spell", 8], args_thorough=["--grid", 0, "--multi", 4000, "--spell", 40], timeout=3000)],
        replay=dict(script="bounds_model.py", args=["--grid", 4000, "--multi", 600, "--spell", 12], timeout=3000),
        functions=BCQ,
        scans=[scan_c01],
        mutants=MUT["C08"],
        explanation="_bounds_check_ under contract for D = 1, 2, 3 (the property's own range; literal shapes, quantifier-free queries, extended reals with NaN): "
                    "normal return => the definition is valid (finite plausible bounds, lb <= plb < pub <= ub, x0 inside the hard bounds, every variable bounded or unbounded); "
                    "ValueError => the definition is invalid (or in the recorded margin zone / next to the smallest normal float); accepted definitions come back with "
                    "lb <= plb' < pub' <= ub, hard bounds unchanged, x0 strictly inside finite hard bounds. No target call: the single target call site is in FunctionLogger (scan). "
                    "BOUNDED: the value grid of the property on the real constructor (D = 1 exhaustive in the thorough tier, D = 2, 3 sampled), spellings "
                    "(scalar / list / tuple / (D,) / (1,D) / integer dtype) give the same normalised definition.",
    ),
    "C07": dict(
        level="other",
        native=[dict(name="reproducibility-bounded", script="repro_model.py", args_quick=["--runs", 5], args_thorough=["--runs", 30], timeout=3000)],
        replay=dict(script="repro_model.py", args=["--runs", 8], timeout=3000),
        functions=[B + "._init_random_seed_"],
        scans=[scan_c07],
        mutants=MUT["C07"],
        explanation="A two-run hyperproperty is not a function contract; what is decided deductively is its cause. (i) RNG typestate: _init_random_seed_ (contract: records and applies "
                    "int(options['random_seed']) whenever one is given) is called in __init__ and in _init_optimization_ before the first statement that transitively draws from NumPy's global "
                    "generator (call-graph closure of np.random.* / rnd.* / gpyreg fit and samplers), optimize draws nothing before _init_optimization_, the Sobol design is seeded explicitly. "
                    "(ii) global-state frame: no library function writes module-level or class-level state or a mutable default argument; the options loader's exec into its module globals "
                    "is followed by the evals of the same call. (iii) entropy: only the timer reads the clock; no id/hash/urandom/default_rng. "
                    "BOUNDED: the same problem run in a fresh state and after three kinds of process history is bit-identical (calls, x, fval, fsd, func_count, message).",
    ),
    "C20": dict(
        level="exploration",
        native=[dict(name="options-bounded", script="options_model.py", args_quick=["--dims", 2, "--pairs", 20, "--orders", 2], args_thorough=["--dims", 4, "--pairs", 400, "--orders", 24], timeout=3000)],
        replay=dict(script="options_model.py", args=["--dims", 3, "--pairs", 60, "--orders", 6], timeout=3000),
        functions=[],
        scans=[scan_c20],
        mutants=MUT["C20"],
        explanation="BOUNDED STAND-IN (not a proof): the option loader is exec / eval / configparser / dict-subclass code that the verifier's language fragment does not cover, so the property is "
                    "explored on the real constructor: every option name of both files x D = 1..3 (4 in the thorough tier) overridden one at a time, random subsets of overrides, unknown names, "
                    "defaults compared with an independent evaluation of the file expressions for the instance's own D, four instances constructed and run in random orders with option "
                    "snapshots compared, caller's dict and arrays compared before/after. Deductive part: structural obligations over the real source only (stores of defaults are guarded by the "
                    "protected-names test, user names are recorded, unknown names raise, order of loading and validation in the constructor, no in-place store through a parameter that may alias "
                    "a caller-owned array, no module-level or class-level writes in the library).",
    ),
    "C09": dict(
        level="other",
        native=[dict(name="panel-rare-histories", script="panel.py", args_quick=["--prop", "C09", "--runs", 10, "--rare", 30], args_thorough=["--prop", "C09", "--runs", 60, "--rare", 200, "--gpfaults", 30], timeout=3000),
                dict(name="es-search-bounded", script="es_model.py", args_quick=["--runs", 150, "--mask", 24], args_thorough=["--runs", 1500, "--mask", 64], timeout=1800)],
        replay=dict(script="panel.py", args=["--prop", "C09", "--runs", 12, "--rare", 40], timeout=3000),
        functions=[ESQ, HQ, B + "._search_step_", B + "._poll_step_"],
        mutants=MUT["C09"],
        explanation="Whole-program crash freedom over NumPy shape semantics and gpyreg is out of reach of function contracts. Decided deductively (a stated subset): in ESSearch.__call__, "
                    "ESSearchHedge.__call__ and _search_step_ no IndexError (opt-in bounds semantics for scalar indexing) and no UnboundLocalError (opt-in definedness tracking of locals) can "
                    "occur, for every outcome of the candidate filter including 'nothing survived' in any generation, and the only exception classes that leave them are the declared ones; "
                    "in _poll_step_ np.argmin is never applied to an emptied poll set (opt-in semantics: arg-reduction of an empty array raises inside NumPy). "
                    "Not modelled (so only observed): the kind of a returned value (a 1-element array and a scalar are the same number in the encoding - the repaired merged-repeat defect was "
                    "found by the bounded layer only), KeyError on dictionaries, AttributeError "
                    "from value kinds (Python float vs NumPy scalar), shape errors raised by NumPy / gpyreg. BOUNDED: full runs in all noise modes with rare internal histories forced "
                    "(tiny feasible region, repeated points under specified noise in D = 1, a non-finite GP prediction at the k-th single-point query, runs ending in their first iteration, "
                    "budgets close to the initial design, failing GP fits in the thorough tier) must return an OptimizeResult.",
    ),
    "C04": dict(
        level="proof",
        native=[panel('C04', 8, 40, kinds="det")], replay=replay('C04', 40),
        functions=[FL + "._record", FL + ".__call__", B + "._init_mesh_", B + "._init_optimization_", B + "._search_step_", B + "._poll_step_", B + ".optimize"],
        mutants=MUT["C04"],
        explanation="Invariant of the deterministic incumbent (uncertainty level 0, default improvement policy): (u_best, yval) is a logged evaluation (existential over log rows, "
                    "points as values), no logged value is below yval, fval == yval, fsd == 0; established by the argmin over the initial design, preserved by the poll loop "
                    "(best-so-far logged and minimal), the search step and the main loop; result x == inverse_transf(u_best) is the original-space point of that log row.",
    ),
    "C03": dict(
        level="proof",
        native=[panel('C03', 6, 36)], replay=replay('C03'),
        functions=[B + ".optimize", B + "._search_step_", B + "._poll_step_", B + "._init_optimization_", B + "._init_mesh_", FL + ".__call__"],
        scans=[scan_c03],
        mutants=MUT["C03"],
        explanation="Termination of the real main loop by a lexicographic ranking function (MI-1-poll_iteration, B-fc_round, NT-search_count) "
                    "with ghost fc_round, termination of the poll loop (2D-poll_count) and of the final-sampling loop; budget and max_iter as "
                    "postconditions; func_count == ghost n_calls through every function that calls the logger; message truth as invariant.",
    ),
}
