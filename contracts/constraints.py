from pyvc.contracts import contract
from .transformer import vt_types

CC = "pybads.function_logger.constraints_check.contraints_check"


@contract(CC, serves=["C17", "C01", "C02"], mode="ext")
def _(c):
    c.arr("U", 2, [None, "function_logger.D"])
    c.arr("lb", 2, [1, "function_logger.D"], ext="lo")
    c.arr("ub", 2, [1, "function_logger.D"], ext="hi")
    c.reals("tol_mesh")
    c.bools("proj")
    c.ints("function_logger.D", "function_logger.X_max_idx", "function_logger.Xn")
    c.arr("function_logger.X", 2, [None, "function_logger.D"])
    c.typ("function_logger", nonnull=True)
    vt_types(c, "function_logger.variable_transformer")
    c.req("D_pos", "function_logger.D >= 1")
    c.req("tol_pos", "tol_mesh > 0")
    c.req("box_nonempty_when_projecting", "implies(proj, forall(function_logger.D, lambda j: lb[0][j] <= ub[0][j]))", props=["C01", "C17", "C14"])
    c.req("log_index", "function_logger.X_max_idx >= -1 and function_logger.X_max_idx < rows(function_logger.X)")
    c.req("inv_vt_order", "forall(function_logger.D, lambda j: function_logger.variable_transformer.orig_lb[0][j] <= function_logger.variable_transformer.orig_ub[0][j])")
    c.req("vt_dim", "function_logger.variable_transformer.D == function_logger.D")
    c.req("cons_ghost", "isnone(non_box_cons) == ghost.cons_none", props=["C02", "C17"])
    c.bools("ghost.cons_none")
    c.mod()
    c.result = {"arrspec": (2, [None, "function_logger.D"], "num", False)}
    # C01: every row handed to the user's constraint function lies in the original hard box
    c.callsite("non_box_cons", {"constraint_arg_in_hard_box": "forall(rows(arg), function_logger.D, lambda k, j: "
               "function_logger.variable_transformer.orig_lb[0][j] <= arg[k][j] and arg[k][j] <= function_logger.variable_transformer.orig_ub[0][j])"},
               top=["constraint_arg_in_hard_box"], props=["C01"])
    A = {"arrspec": (2, [None, "function_logger.D"], "num", False)}
    INBOX = "forall(rows(U_new), function_logger.D, lambda k, j: lb[0][j] <= U_new[k][j] and U_new[k][j] <= ub[0][j])"
    DISTINCT = "forall(rows(U_new), rows(U_new), lambda a, b: implies(a != b, not pteq(row(U_new, a), row(U_new, b))))"
    FROM = "implies(not proj, forall(rows(U_new), lambda k: exists(rows(U), lambda i: pteq(row(U_new, k), row(U, i)))))"
    # statement contracts: one per filtering stage
    c.cut("if proj:", "U_new", A, {"in_box": INBOX, "from_input": FROM}, props=["C17", "C01", "C14"])
    c.cut("U_new = U_new[np.sort(idx_sort), :]", "U_new", A, {"in_box": INBOX, "pairwise_distinct": DISTINCT, "from_input": FROM}, props=["C17", "C14"])
    c.cut("if U_new.size > 0:", "U_new", A, {"in_box": INBOX, "pairwise_distinct": DISTINCT, "from_input": FROM}, props=["C17", "C14"])
    # ---- C17 clauses (taken from the property statement) ----
    c.ens("in_box", "forall(rows(result), function_logger.D, lambda k, j: lb[0][j] <= result[k][j] and result[k][j] <= ub[0][j])",
          top=True, props=["C17", "C01", "C18"])
    c.ens("feasible", "forall(rows(result), lambda k: feasx(invt(row(result, k))))", top=True, props=["C17", "C02"])
    # C14: without projection the filter only selects - every returned row is one of the rows passed in
    c.ens("rows_selected_from_input", "implies(not proj, forall(rows(result), lambda k: exists(rows(U), lambda i: pteq(row(result, k), row(U, i)))))",
          top=True, props=["C14"])
    c.ens("pairwise_distinct", "forall(rows(result), rows(result), lambda a, b: implies(a != b, not pteq(row(result, a), row(result, b))))",
          top=True, props=["C17"])
