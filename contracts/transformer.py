import z3
from pyvc.contracts import contract
from pyvc.vals import N, Arr, Val, ctx, n_le
from .models import rowwise, uf, PT

VT = "pybads.variable_transformer.variables_transformer.VariableTransformer"


def vt_types(c, root="self"):
    c.ints(root + ".D")
    c.arr(root + ".orig_lb", 2, [1, root + ".D"], ext="lo")
    c.arr(root + ".orig_ub", 2, [1, root + ".D"], ext="hi")
    c.arr(root + ".lb", 2, [1, root + ".D"], ext="lo")
    c.arr(root + ".ub", 2, [1, root + ".D"], ext="hi")


def clamped_result(fname, lo_attr, hi_attr):
    """Result of the (inverse) transform at call sites: a row-wise deterministic function of the input rows whose
    every element lies within the transformer's bounds (the postcondition proved for the body)."""
    def build(eng, c, b, st, pre):
        self_v = b["self"]
        lo = eng.lookup(st, self_v.ref + "." + lo_attr).get_arr()
        hi = eng.lookup(st, self_v.ref + "." + hi_attr).get_arr()
        f = lambda p: uf(fname, PT, PT)(p)
        r = rowwise(fname, f, b["input"])
        a = r.get_arr()
        if a is None or lo is None or hi is None:
            return r
        inner = a._elem
        zero = z3.IntVal(0)

        def el(*i):
            x = inner(*i)
            j = i[-1]
            ctx().add_fact(z3.And(n_le(lo.elem(zero, j), x), n_le(x, hi.elem(zero, j))), key=("clamp", fname, str(x.r)))
            return x

        a._elem = el
        return r

    return build


@contract(VT + ".inverse_transf", serves=["C01", "C02", "C11"], mode="ext")
def _(c):
    vt_types(c)
    c.arr("input", 2, [None, "self.D"])
    c.req("inv_vt_order", "forall(self.D, lambda j: self.orig_lb[0][j] <= self.orig_ub[0][j])", props=["C01", "C11"])
    c.mod()
    c.result = {"builder": clamped_result("InvT", "orig_lb", "orig_ub")}
    # C01/C11: outputs never leave the original hard box - for EVERY finite input, inside or outside the internal box
    c.ens("clamped", "forall(rows(result), self.D, lambda i, j: self.orig_lb[0][j] <= result[i][j] and result[i][j] <= self.orig_ub[0][j])",
          top=True, props=["C01", "C11"])
    c.ens("shape", "rows(result) == rows(input) and cols(result) == self.D")


@contract(VT + ".__call__", serves=["C01", "C11"], mode="ext")
def _(c):
    vt_types(c)
    c.arr("input", 2, [None, "self.D"])
    c.req("inv_vt_order_t", "forall(self.D, lambda j: self.lb[0][j] <= self.ub[0][j])", props=["C01", "C11"])
    c.mod()
    c.result = {"builder": clamped_result("FwdT", "lb", "ub")}
    c.ens("clamped", "forall(rows(result), self.D, lambda i, j: self.lb[0][j] <= result[i][j] and result[i][j] <= self.ub[0][j])",
          top=True, props=["C01", "C11"])
    c.ens("shape", "rows(result) == rows(input) and cols(result) == self.D")
