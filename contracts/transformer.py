import z3
from pyvc.contracts import contract
from pyvc.vals import N, Arr, Val, ctx, n_le
from .models import rowwise, uf, PT

VT = "pybads.variable_transformer.variables_transformer.VariableTransformer"


def vt_types(c, root="self"):
    c.ints(root + ".D")
    c.arr(root + ".orig_lb", 2, [1, root + ".D"], ext="lo")
    c.arr(root + ".orig_ub", 2, [1, root + ".D"], ext="hi")
    c.arr(root + ".lb", 2, [1, root + ".D"], ext="lo")
    c.arr(root + ".ub", 2, [1, root + ".D"], ext="hi")


def clamped_result(fname, lo_attr, hi_attr):
    """Result of the (inverse) transform at call sites: a row-wise deterministic function of the input rows whose
    every element lies within the transformer's bounds (the postcondition proved for the body)."""
    def build(eng, c, b, st, pre):
        self_v = b["self"]
        lo = eng.lookup(st, self_v.ref + "." + lo_attr).get_arr()
        hi = eng.lookup(st, self_v.ref + "." + hi_attr).get_arr()
        f = lambda p: uf(fname, PT, PT)(p)
        r = rowwise(fname, f, b["input"])
        a = r.get_arr()
        if a is None or lo is None or hi is None:
            return r
        inner = a._elem
        zero = z3.IntVal(0)

        def el(*i):
            x = inner(*i)
            j = i[-1]
            ctx().add_fact(z3.And(n_le(lo.elem(zero, j), x), n_le(x, hi.elem(zero, j))), key=("clamp", fname, str(x.r)))
            return x

        a._elem = el
        return r

    return build


@contract(VT + ".inverse_transf", serves=["C01", "C02", "C11"], mode="ext")
def _(c):
    vt_types(c)
    c.arr("input", 2, [None, "self.D"])
    c.req("inv_vt_order", "forall(self.D, lambda j: self.orig_lb[0][j] <= self.orig_ub[0][j])", props=["C01", "C11"])
    c.mod()
    c.result = {"builder": clamped_result("InvT", "orig_lb", "orig_ub")}
    # C01/C11: outputs never leave the original hard box - for EVERY finite input, inside or outside the internal box
    c.ens("clamped", "forall(rows(result), self.D, lambda i, j: self.orig_lb[0][j] <= result[i][j] and result[i][j] <= self.orig_ub[0][j])",
          top=True, props=["C01", "C11"])
    c.ens("shape", "rows(result) == rows(input) and cols(result) == self.D")


@contract(VT + ".__call__", serves=["C01", "C11"], mode="ext")
def _(c):
    vt_types(c)
    c.arr("input", 2, [None, "self.D"])
    c.req("inv_vt_order_t", "forall(self.D, lambda j: self.lb[0][j] <= self.ub[0][j])", props=["C01", "C11"])
    c.mod()
    c.result = {"builder": clamped_result("FwdT", "lb", "ub")}
    c.ens("clamped", "forall(rows(result), self.D, lambda i, j: self.lb[0][j] <= result[i][j] and result[i][j] <= self.ub[0][j])",
          top=True, props=["C01", "C11"])
    c.ens("shape", "rows(result) == rows(input) and cols(result) == self.D")


@contract(VT + ".__create_hypercube_trans__", serves=["C11", "C01", "C08"], mode="ext")
def _(c):
    c.ints("self.D")
    for nm in ("lb", "orig_lb"):
        c.arr("self." + nm, 2, [1, "self.D"], ext="lo")
    for nm in ("ub", "orig_ub"):
        c.arr("self." + nm, 2, [1, "self.D"], ext="hi")
    for nm in ("plb", "pub", "orig_plb", "orig_pub"):
        c.arr("self." + nm, 2, [1, "self.D"])
    c.arr("self.apply_log_t", 2, [1, "self.D"], ext=True)
    c.arr("ghost.x1", 2, [1, "self.D"])
    c.arr("ghost.x2", 2, [1, "self.D"])
    c.req("D", "self.D >= 1")
    RULE = ("(self.orig_lb[0][%s] > 0 and self.orig_ub[0][%s] > 0 and self.orig_plb[0][%s] > 0 and self.orig_pub[0][%s] > 0 and self.orig_pub[0][%s] / self.orig_plb[0][%s] >= 10)")
    rule = lambda j: RULE % ((j,) * 6)
    # BADS passes a flag vector that is NaN ("decide") or 0 ("never") per coordinate
    c.req("flag_nan_or_zero", "forall(self.D, lambda j: isnan(self.apply_log_t[0][j]) or self.apply_log_t[0][j] == 0)")
    c.arr("check_idx_log_t", 2, [None, 1])
    c.loop(0, invariants={
        "bounds_untouched": "same(self.lb, self.orig_lb) and same(self.ub, self.orig_ub) and same(self.plb, self.orig_plb) and same(self.pub, self.orig_pub)",
        "decided_flags_kept": "forall(self.D, lambda j: implies(not isnan(old(self.apply_log_t)[0][j]), self.apply_log_t[0][j] == 0))",
        "processed_follow_rule": "forall(loop_index, lambda k: self.apply_log_t[0][check_idx_log_t[k][0]] == ite(" + rule("check_idx_log_t[k][0]") + ", 1, 0))",
        "untouched_elsewhere": "forall(self.D, lambda j: implies(isnan(old(self.apply_log_t)[0][j]) and forall(loop_index, lambda k: check_idx_log_t[k][0] != j), isnan(self.apply_log_t[0][j])))",
    })
    c.lemma_at("if not (np.all(self.lb <= self.plb)", {"order": "forall(self.D, lambda j: self.orig_lb[0][j] <= self.orig_plb[0][j] and self.orig_plb[0][j] < self.orig_pub[0][j] "
               "and self.orig_pub[0][j] <= self.orig_ub[0][j])"}, props=["C11", "C01", "C08"])
    c.lemma_at("self.apply_log_t = self.apply_log_t.astype(bool)", {
        "flag_rule": "forall(self.D, lambda j: truthy(self.apply_log_t[0][j]) == (isnan(old(self.apply_log_t)[0][j]) and " + rule("j") + "))"}, props=["C11"])
    c.lemma_at("apply_log_t_sum = np.sum(self.apply_log_t)", {
        "sum_zero_no_log": "implies(apply_log_t_sum == 0, forall(self.D, lambda j: not truthy(self.apply_log_t[0][j])))",
        "sum_D_all_log": "implies(apply_log_t_sum == self.D, forall(self.D, lambda j: truthy(self.apply_log_t[0][j])))"}, props=["C11"])
    LOGX = "np.log(np.abs(ghost.x1) + (ghost.x1 == 0))[0][j]"
    # statement contract on gamma: afterwards only these algebraic facts about it are used (keeps the later queries out of
    # nonlinear arithmetic over the definitions of mu and gamma)
    c.cut("gamma = 0.5 * (self.pub - self.plb)", "gamma", {"arrspec": (2, [1, "self.D"], "num", False)}, {
        "gamma_positive": "forall(self.D, lambda j: gamma[0][j] > 0)",
        "mono_exp": "forall(self.D, lambda j: implies(ghost.x1[0][j] < ghost.x2[0][j], np.exp(gamma * ghost.x1 + mu)[0][j] < np.exp(gamma * ghost.x2 + mu)[0][j]))",
        "rt_log": "forall(self.D, lambda j: gamma[0][j] * ((" + LOGX + " - mu[0][j]) / gamma[0][j]) + mu[0][j] == " + LOGX + ")",
        "unit_affine": "forall(self.D, lambda j: implies(not truthy(self.apply_log_t[0][j]), (self.orig_plb[0][j] - mu[0][j]) / gamma[0][j] == -1 and (self.orig_pub[0][j] - mu[0][j]) / gamma[0][j] == 1))",
        "unit_log": "forall(self.D, lambda j: implies(truthy(self.apply_log_t[0][j]), (np.log(self.orig_plb)[0][j] - mu[0][j]) / gamma[0][j] == -1 and (np.log(self.orig_pub)[0][j] - mu[0][j]) / gamma[0][j] == 1))",
        "rt_affine": "forall(self.D, lambda j: gamma[0][j] * ((ghost.x1[0][j] - mu[0][j]) / gamma[0][j]) + mu[0][j] == ghost.x1[0][j])",
        "mono_log": "forall(self.D, lambda j: implies(truthy(self.apply_log_t[0][j]) and ghost.x1[0][j] > 0 and ghost.x1[0][j] < ghost.x2[0][j], "
                    "np.log(np.abs(ghost.x1) + (ghost.x1 == 0))[0][j] < np.log(np.abs(ghost.x2) + (ghost.x2 == 0))[0][j]))",
        "mono_affine": "forall(self.D, lambda j: implies(ghost.x1[0][j] < ghost.x2[0][j], (ghost.x1[0][j] - mu[0][j]) / gamma[0][j] < (ghost.x2[0][j] - mu[0][j]) / gamma[0][j]))",
        "mono_logz": "forall(self.D, lambda j: implies(truthy(self.apply_log_t[0][j]) and ghost.x1[0][j] > 0 and ghost.x1[0][j] < ghost.x2[0][j], "
                     "(np.log(np.abs(ghost.x1) + (ghost.x1 == 0))[0][j] - mu[0][j]) / gamma[0][j] < (np.log(np.abs(ghost.x2) + (ghost.x2 == 0))[0][j] - mu[0][j]) / gamma[0][j]))",
    }, props=["C11"])
    c.ens("log_flag_exactly_when_positive_decade", "forall(self.D, lambda j: truthy(self.apply_log_t[0][j]) == (isnan(old(self.apply_log_t)[0][j]) and " + rule("j") + "))",
          top=True, props=["C11"])
    c.req("copies", "same(self.lb, self.orig_lb) and same(self.ub, self.orig_ub) and same(self.plb, self.orig_plb) and same(self.pub, self.orig_pub)")
    c.may_raise("ValueError")
    # the constructor's numeric self-test only decides whether ValueError is raised; no clause needs its value
    c.opaque_stmt("tests[0] =", "tests[1] =", "tests[2] =", "tests[3] =")
    # C08/C01: a normal return means the bounds are ordered
    c.ens("order_checked", "forall(self.D, lambda j: self.orig_lb[0][j] <= self.orig_plb[0][j] and self.orig_plb[0][j] < self.orig_pub[0][j] and self.orig_pub[0][j] <= self.orig_ub[0][j])",
          top=True, props=["C11", "C01", "C08"])
    # C11 lemmas over the real lambda bodies (result[4] = g, result[5] = ginv), for arbitrary points x1, x2
    c.ens("transformed_hard_bounds_are_numbers", "forall(self.D, lambda j: not isnan(result[0][0][j]) and not isnan(result[1][0][j]))", top=True, props=["C11", "C01"])
    c.ens("plausible_bounds_map_to_unit", "forall(self.D, lambda j: result[2][0][j] == -1 and result[3][0][j] == 1)", top=True, props=["C11"])
    G1, G2 = "result[4](ghost.x1)[0][j]", "result[4](ghost.x2)[0][j]"
    c.ens("forward_increasing_affine", "forall(self.D, lambda j: implies(not truthy(self.apply_log_t[0][j]) and ghost.x1[0][j] < ghost.x2[0][j], " + G1 + " < " + G2 + "))", top=True, props=["C11"])
    c.ensures[-1].from_path_condition_only = True  # follows from g_on_affine_coordinates + mono_affine (both on the path) by substitution
    # unfolding lemma for the forward map on log coordinates (proved where g is defined, used by forward_increasing_log): splits
    # one expensive query into a definitional step and an arithmetic step
    LOGX2 = "np.log(np.abs(ghost.x2) + (ghost.x2 == 0))[0][j]"
    c.lemma_at("lbtest = self.orig_lb.copy()", {
        "g_on_log_coordinates": "forall(self.D, lambda j: implies(truthy(self.apply_log_t[0][j]), g(ghost.x1)[0][j] == (" + LOGX + " - mu[0][j]) / gamma[0][j] and "
                                "g(ghost.x2)[0][j] == (" + LOGX2 + " - mu[0][j]) / gamma[0][j]))",
        "g_on_affine_coordinates": "forall(self.D, lambda j: implies(not truthy(self.apply_log_t[0][j]), g(ghost.x1)[0][j] == (ghost.x1[0][j] - mu[0][j]) / gamma[0][j] and "
                                   "g(ghost.x2)[0][j] == (ghost.x2[0][j] - mu[0][j]) / gamma[0][j]))"}, props=["C11"])
    c.ens("forward_increasing_log", "forall(self.D, lambda j: implies(truthy(self.apply_log_t[0][j]) and ghost.x1[0][j] > 0 and ghost.x1[0][j] < ghost.x2[0][j], " + G1 + " < " + G2 + "))", top=True, props=["C11"])
    c.ensures[-1].from_path_condition_only = True  # follows from g_on_log_coordinates + mono_logz (both on the path) by substitution
    FL_ = "truthy(self.apply_log_t[0][j])"
    GI1, GI2 = "result[5](ghost.x1)[0][j]", "result[5](ghost.x2)[0][j]"
    c.ens("inverse_increasing_affine", "forall(self.D, lambda j: implies(not " + FL_ + " and ghost.x1[0][j] < ghost.x2[0][j], " + GI1 + " < " + GI2 + "))", top=True, props=["C11"])
    c.ens("inverse_nondecreasing_log", "forall(self.D, lambda j: implies(" + FL_ + " and ghost.x1[0][j] < ghost.x2[0][j], " + GI1 + " <= " + GI2 +
          " and implies(" + GI2 + " < fmax(), " + GI1 + " < " + GI2 + ")))", top=True, props=["C11"])
    RT = "result[5](result[4](ghost.x1))[0][j] == ghost.x1[0][j]"
    c.ens("round_trip_affine", "forall(self.D, lambda j: implies(not " + FL_ + ", " + RT + "))", top=True, props=["C11"])
    # round trip for log coordinates (exp(log x) through the affine map) is left to the bounded sampling check: the chained
    # nonlinear + uninterpreted exp/log query does not discharge reliably within the budget


@contract(VT + ".__init__", serves=["C01", "C11"], mode="ext")
def _(c):
    """The constructor establishes the transformer's invariant that the other contracts assume: the original hard bounds are
    recorded unchanged, ordered, with the dimension - or ValueError is raised (by the bound checks of the hypercube set-up)."""
    c.ints("D")
    c.arr("lower_bounds", 2, [1, "D"], ext="lo")
    c.arr("upper_bounds", 2, [1, "D"], ext="hi")
    c.arr("plausible_lower_bounds", 2, [1, "D"])
    c.arr("plausible_upper_bounds", 2, [1, "D"])
    vt_types(c, "self")
    c.req("dimension", "D >= 1", props=["C01", "C11"])
    c.arr("apply_log_t", 2, [1, "D"], ext=True)
    # BADS passes a flag vector that is NaN ("decide by the rule") or 0 ("never") per coordinate
    c.req("flag_nan_or_zero", "forall(D, lambda j: isnan(apply_log_t[0][j]) or apply_log_t[0][j] == 0)", props=["C01", "C11"])
    c.prune_branches = True  # with an array flag vector the None / scalar branches of the flag set-up are dead
    c.mod_prefix("self")
    c.may_raise("ValueError")
    c.ens("original_hard_bounds_recorded", "self.D == D and forall(D, lambda j: same(self.orig_lb[0][j], lower_bounds[0][j]) and same(self.orig_ub[0][j], upper_bounds[0][j]))",
          top=True, props=["C01", "C11"])
    c.ens("hard_bounds_ordered", "forall(D, lambda j: self.orig_lb[0][j] <= self.orig_ub[0][j])", top=True, props=["C01", "C11"])
