from pyvc.contracts import contract

OR = "pybads.bads.optimize_result.OptimizeResult"


@contract(OR + ".set_attributes", serves=["C19", "C04", "C05"])
def _(c):
    c.ints("bads.function_logger.func_count", "bads.optim_state['uncertainty_handling_level']", "bads.options['noise_final_samples']", "bads.optim_state['iter']", "bads.D")
    c.reals("bads.fval", "bads.fsd", "bads.mesh_size")
    c.arr("bads.x", 1, ["bads.D"])
    c.arr("bads.x0", 2, [None, "bads.D"])
    c.arr("bads.lower_bounds", 2, [1, "bads.D"], ext="lo")
    c.arr("bads.upper_bounds", 2, [1, "bads.D"], ext="hi")
    c.let(lvl="bads.optim_state['uncertainty_handling_level']")
    # C19: the result agrees with the problem and the final state
    c.ens("x_fval_fsd", "same(self['x'], bads.x) and self['fval'] == bads.fval and self['fsd'] == bads.fsd", top=True, props=["C19", "C04"])
    c.ens("x0", "same(self['x0'], bads.x0)", top=True, props=["C19"])
    c.ens("counts", "self['func_count'] == bads.function_logger.func_count and self['mesh_size'] == bads.mesh_size and self['iterations'] == bads.optim_state['iter']",
          top=True, props=["C19"])
    c.ens("seed_and_message", "same(self['random_seed'], bads.optim_state['random_seed']) and same(self['message'], bads.optim_state['termination_msg'])",
          top=True, props=["C19"])
    c.ens("target_type", "iff(streq(self['target_type'], 'deterministic'), lvl <= 0) and "
          "iff(streq(self['target_type'], 'stochastic (specified noise)'), lvl > 0 and truthy(bads.options['specify_target_noise']))", top=True, props=["C19", "C04"])
    c.ens("problem_type", "iff(streq(self['problem_type'], 'non-box constraints'), not isnone(bads.non_box_cons)) and "
          "implies(streq(self['problem_type'], 'unconstrained'), isnone(bads.non_box_cons))", top=True, props=["C19"])
    c.ens("yval_vec_only_for_noisy", "implies(not (lvl > 0 and bads.options['noise_final_samples'] > 0), isnone(self['yval_vec']))", top=True, props=["C05", "C19"])
    c.may_raise("ValueError")


@contract(OR + ".__setitem__", serves=["C19"])
def _(c):
    c.typ("key", str=True)
    c.check_raises = True
    c.may_raise("ValueError", when="not (streq(key, 'x') or streq(key, 'x0') or streq(key, 'success') or streq(key, 'status') or streq(key, 'message') or streq(key, 'fun') "
                "or streq(key, 'func_count') or streq(key, 'iterations') or streq(key, 'target_type') or streq(key, 'problem_type') or streq(key, 'mesh_size') "
                "or streq(key, 'non_box_cons') or streq(key, 'yval_vec') or streq(key, 'ysd_vec') or streq(key, 'fval') or streq(key, 'fsd') or streq(key, 'total_time') "
                "or streq(key, 'overhead') or streq(key, 'random_seed') or streq(key, 'algorithm') or streq(key, 'version'))", name="unknown_key")
