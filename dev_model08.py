import sys, os
sys.path.insert(0, '/verif')
from pyvc.index import RepoIndex
from pyvc import contracts as C
from pyvc.verify import verify_function
from pyvc.solve import to_smt2
import z3
reg = C.load_all(); idx = RepoIndex()
q = [k for k in reg if k.endswith(sys.argv[1])][0]
eng, obs, cx, t = verify_function(idx, reg, q, pid="C08")
D = int(q[-1])
TAG = {0: "fin", 1: "+inf", 2: "-inf", 3: "nan"}
for ob in obs:
    if sys.argv[2] in ob.name:
        s = z3.Solver(); s.from_string(to_smt2(ob, cx.facts, {}))
        r = s.check(); print(ob.name, r)
        if r != z3.sat: continue
        m = s.model()
        env = eng.entry_state.env
        for nm in ("x0", "lower_bounds", "upper_bounds", "plausible_lower_bounds", "plausible_upper_bounds"):
            v = env[nm]
            none = m.eval(v.none, model_completion=True) if v.none is not None else False
            row = []
            for j in range(D):
                e = v.arr.elem(0, j)
                val = m.eval(e.r, model_completion=True)
                tg = m.eval(e.t, model_completion=True) if e.t is not None else 0
                row.append("%s/%s" % (val, TAG.get(tg.as_long() if hasattr(tg, 'as_long') else tg, tg)))
            print("  ", nm, "None" if z3.is_true(none) else row)
