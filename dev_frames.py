import sys
sys.path.insert(0,'/verif')
from pyvc.index import RepoIndex
from pyvc import contracts as C, frames
from pyvc.verify import VEngine
from pyvc.vals import Ctx,set_ctx
set_ctx(Ctx())
idx=RepoIndex(); eng=VEngine(idx, C.load_all())
for q in sys.argv[1:]:
    fi=[f for k,f in idx.funcs.items() if k.endswith(q)][0]
    eng.func=fi; eng.frame_cls=[fi.cls]
    fr=frames.frame_of(eng, fi)
    print(fi.qual); print('  paths', sorted(fr.paths)); print('  prefixes', sorted(fr.prefixes)); print('  effects', fr.effects, fr.may_call_target)
