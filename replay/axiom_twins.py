"""Executable twins of the NumPy primitive models in pyvc/npmodel.py: each axiom the encoding relies on is evaluated on real
NumPy for small random arrays (including empty arrays, repeats, negative numbers, infinities where the model allows them).
A failing twin means the model is wrong: checker error (exit 3), never a verdict.  Prints one JSON line."""
import json
import sys

import numpy as np


def rnd_arr(rng, shape, ints=True):
    a = rng.integers(-3, 4, size=shape).astype(float)
    if not ints:
        a = a + rng.random(size=shape)
    return a


def main():
    seed = int(sys.argv[sys.argv.index("--seed") + 1]) if "--seed" in sys.argv else 0
    n_rounds = int(sys.argv[sys.argv.index("--rounds") + 1]) if "--rounds" in sys.argv else 300
    rng = np.random.default_rng(4000 + seed)
    bad = []

    def chk(name, ok, **kw):
        if not ok and len(bad) < 10:
            bad.append(dict(axiom=name, **{k: np.asarray(v).tolist() for k, v in kw.items()}))

    for _ in range(n_rounds):
        n, d = int(rng.integers(0, 6)), int(rng.integers(1, 4))
        a = rnd_arr(rng, n)
        A = rnd_arr(rng, (n, d))
        # sort / argsort: permutation, ascending, first element is a least element
        idx = np.argsort(a)
        chk("argsort.permutation", sorted(idx.tolist()) == list(range(n)), a=a)
        chk("argsort.ascending", all(a[idx[i]] <= a[idx[j]] for i in range(n) for j in range(i, n)), a=a)
        chk("argsort.least_first", n == 0 or all(a[idx[0]] <= x for x in a), a=a)
        chk("sort.is_permuted", np.array_equal(np.sort(a), a[idx]), a=a)
        # argmin / argmax / min / max
        if n:
            chk("argmin.extremal", 0 <= np.argmin(a) < n and all(a[np.argmin(a)] <= x for x in a) and a.min() == a[np.argmin(a)], a=a)
            chk("argmax.extremal", all(a[np.argmax(a)] >= x for x in a) and a.max() == a[np.argmax(a)], a=a)
            cm = A.min(0)
            chk("colmin.witness_row", all(any(A[i, j] == cm[j] for i in range(n)) and all(cm[j] <= A[i, j] for i in range(n)) for j in range(d)), A=A)
            cx = A.max(0)
            chk("colmax.witness_row", all(any(A[i, j] == cx[j] for i in range(n)) and all(cx[j] >= A[i, j] for i in range(n)) for j in range(d)), A=A)
        # boolean mask select: order preserving subsequence, shared enumeration for the same mask, complement
        m = rng.random(n) < 0.5
        sel = np.flatnonzero(m)
        chk("mask.count", len(a[m]) == int(m.sum()) and len(A[m, :]) == int(m.sum()) and len(A[m]) == int(m.sum()), m=m)
        chk("mask.order", np.array_equal(a[m], a[sel]) and np.array_equal(A[m], A[sel]) and all(sel[i] < sel[i + 1] for i in range(len(sel) - 1)), m=m)
        chk("mask.complement", int((~m).sum()) == n - int(m.sum()) and np.array_equal(A[~m], A[np.flatnonzero(~m)]), m=m)
        # masked store (aligned rhs and scalar rhs)
        b = a.copy()
        b[m] = 2 * a[m] + 1
        chk("masked_store.aligned", all((b[i] == 2 * a[i] + 1) if m[i] else (b[i] == a[i]) for i in range(n)), a=a, m=m)
        b = a.copy()
        b[m] = 7.0
        chk("masked_store.scalar", all((b[i] == 7.0) if m[i] else (b[i] == a[i]) for i in range(n)), a=a, m=m)
        # sum: linear functional, positivity, upper bound for non-negative vectors (mathematical reals: integer data here)
        c, e = float(rng.integers(-3, 4)), float(rng.integers(-3, 4))
        chk("sum.affine", np.sum(c * a + e) == c * np.sum(a) + n * e, a=a)
        p = np.abs(a) + 1
        chk("sum.positive", n == 0 or (np.sum(p) > 0 and all(x <= np.sum(p) for x in p)), a=a)
        chk("sum.empty", np.sum(np.zeros(0)) == 0)
        # append / concatenate / vstack / delete
        B = rnd_arr(rng, (int(rng.integers(0, 4)), d))
        for f in (lambda x, y: np.append(x, y, axis=0), lambda x, y: np.concatenate((x, y)), lambda x, y: np.vstack((x, y))):
            R = f(A, B)
            chk("append.rows", R.shape == (len(A) + len(B), d) and np.array_equal(R[: len(A)], A) and np.array_equal(R[len(A):], B), A=A, B=B)
        chk("append.1d", np.array_equal(np.append(a, a[:2], axis=0), np.concatenate((a, a[:2]))), a=a)
        if n:
            k = int(rng.integers(0, n))
            R = np.delete(A, k, axis=0)
            chk("delete.row", R.shape == (n - 1, d) and np.array_equal(R[:k], A[:k]) and np.array_equal(R[k:], A[k + 1:]), A=A)
        # slicing clamps; fancy row selection
        hi = int(rng.integers(0, 9))
        chk("slice.clamped", len(a[0:hi]) == min(hi, n) and np.array_equal(a[0:hi], a[: min(hi, n)]), a=a)
        if n:
            ii = rng.integers(0, n, size=int(rng.integers(0, 5)))
            chk("fancy.rows", np.array_equal(A[ii], np.array([A[i] for i in ii]).reshape(len(ii), d)), A=A)
        # unique rows with first-occurrence indices
        if n:
            U, fi = np.unique(A, axis=0, return_index=True)
            chk("unique.rows", len(set(map(tuple, U))) == len(U) and set(map(tuple, U)) == set(map(tuple, A)) and all(np.array_equal(A[fi[k]], U[k]) and
                not any(np.array_equal(A[t], U[k]) for t in range(fi[k])) for k in range(len(U))), A=A)
        # round / minimum / maximum / abs / isfinite on extended values
        x = rnd_arr(rng, 4, ints=False)
        r = np.round(x)
        chk("round", all(abs(r[i] - x[i]) <= 0.5 and r[i] == np.floor(r[i]) for i in range(4)), x=x)
        y = np.array([np.inf, -np.inf, 1.0, -2.0])
        chk("minmax.ext", np.array_equal(np.minimum(y, 0.5), [0.5, -np.inf, 0.5, -2.0]) and np.array_equal(np.maximum(y, 0.5), [np.inf, 0.5, 1.0, 0.5]))
        chk("isfinite.ext", np.array_equal(np.isfinite(np.array([np.inf, np.nan, 1.0])), [False, False, True]) and not (np.nan <= 1.0) and not (np.nan >= 1.0))
        # tril / eye / transpose / permutation
        S = rnd_arr(rng, (d, d))
        chk("tril", all((np.tril(S, -1)[i, j] == (S[i, j] if j < i else 0)) for i in range(d) for j in range(d)), S=S)
        np.random.seed(int(rng.integers(0, 2 ** 31)))
        P = np.random.permutation(S)
        chk("permutation.rows", sorted(map(tuple, P)) == sorted(map(tuple, S)), S=S)
        ri = np.random.randint(1, 3, 5)
        chk("randint.range", all(1 <= v < 3 and v == int(v) for v in ri))
        rr = np.random.rand(3)
        chk("rand.range", len(rr) == 3 and all(0 <= v < 1 for v in rr))
        # np.max / np.min of a Python list of scalars; np.minimum of scalars
        chk("max.list", np.max([3, 1, 2]) == 3 and np.min([3, 1, 2]) == 1)
    print(json.dumps({"status": "ok" if not bad else "error", "failed_twins": bad, "rounds": n_rounds}))
    return 0 if not bad else 3


if __name__ == "__main__":
    sys.exit(main())
