"""Runtime monitors of the property clauses on real runs of the real code (/venv/bin/python).

BOUNDED layer: cross-checks the proved clauses on a panel of real optimisations (a proved clause that
fires here means the encoding is wrong) and searches for a concrete failing input when an obligation fails.
Nothing here is counted as proved.  Output: one JSON line."""
import argparse
import json
import os
import sys
import time
import traceback
import warnings

warnings.filterwarnings("ignore")
import logging  # noqa: E402

import numpy as np  # noqa: E402

REPO = os.environ.get("PYVC_REPO", "/repo")
if REPO not in sys.path:
    sys.path.insert(0, REPO)

import pybads  # noqa: E402
from pybads import BADS  # noqa: E402
import pybads.bads.bads as bads_mod  # noqa: E402
import pybads.search.es_search as es_mod  # noqa: E402
from pybads.function_logger import function_logger as fl_mod  # noqa: E402
from pybads.function_logger import constraints_check as cc_mod  # noqa: E402

logging.disable(logging.CRITICAL)


class Viol(list):
    def add(self, clause, key, **kw):
        if len(self) < 20:
            d = {"clause": clause, "key": key}
            d.update(kw)
            self.append(d)


def jsonable(x):
    if isinstance(x, np.ndarray):
        return x.tolist()
    if isinstance(x, (np.floating, np.integer)):
        return x.item()
    if isinstance(x, dict):
        return {k: jsonable(v) for k, v in x.items()}
    if isinstance(x, (list, tuple)):
        return [jsonable(v) for v in x]
    return x


# ---------------------------------------------------------------------------------------------------------
# problems
# ---------------------------------------------------------------------------------------------------------
def problems(rng, n, kinds=None):
    """A panel of small problems: bound geometries x noise modes x constraints x budgets."""
    out = []
    geos = ["sym", "log", "unbounded", "tight", "opt_outside", "opt_on_bound"]
    modes = ["det", "det", "auto_noise", "declared_noise", "specified_noise"]
    k = 0
    while len(out) < n:
        geo = geos[k % len(geos)]
        mode = modes[(k // len(geos) + k) % len(modes)]
        if kinds and mode not in kinds and geo not in kinds:
            k += 1
            if k > 500:
                break
            continue
        D = int(rng.integers(1, 4))
        cons = (k % 3 == 1) and geo in ("sym", "tight", "opt_outside")
        p = make_problem(rng, D, geo, mode, cons, k)
        out.append(p)
        k += 1
    return out


def make_problem(rng, D, geo, mode, cons, k):
    center = rng.uniform(-1, 1, size=D)
    if geo == "sym":
        lb, ub, plb, pub = -10 * np.ones(D), 10 * np.ones(D), -3 * np.ones(D), 3 * np.ones(D)
    elif geo == "log":
        lb, ub, plb, pub = 1e-3 * np.ones(D), 1e3 * np.ones(D), 0.1 * np.ones(D), 10 * np.ones(D)
        center = rng.uniform(0.5, 5, size=D)
    elif geo == "unbounded":
        lb, ub, plb, pub = None, None, -3 * np.ones(D), 3 * np.ones(D)
    elif geo == "tight":
        lb, ub = -2 * np.ones(D), 2 * np.ones(D)
        plb, pub = lb.copy(), ub.copy()
    elif geo == "opt_outside":
        lb, ub, plb, pub = -1 * np.ones(D), 1 * np.ones(D), -0.8 * np.ones(D), 0.8 * np.ones(D)
        center = 3 * np.ones(D)
    else:  # opt_on_bound
        lb, ub, plb, pub = 0 * np.ones(D), 4 * np.ones(D), 0.5 * np.ones(D), 3 * np.ones(D)
        center = np.zeros(D)
    x0 = None if k % 4 == 3 else (plb + (pub - plb) * rng.uniform(0.1, 0.9, size=D))
    sigma = 0.0
    opts = {"display": "off", "max_fun_evals": int(rng.integers(25, 70)), "random_seed": int(rng.integers(0, 10**6))}
    if mode == "auto_noise":
        sigma = 0.5
    elif mode == "declared_noise":
        sigma = 0.5
        opts["uncertainty_handling"] = True
    elif mode == "specified_noise":
        sigma = 0.5
        opts["uncertainty_handling"] = True
        opts["specify_target_noise"] = True
    if mode != "det":
        opts["max_fun_evals"] = int(rng.integers(60, 110))
        opts["noise_final_samples"] = int(rng.choice([0, 1, 3, 10]))
    if k % 5 == 2:
        opts["max_iter"] = int(rng.integers(2, 6))
    if k % 7 == 3:
        opts["complete_poll"] = True
    if k % 7 == 5:
        opts["accelerate_mesh"] = False
    if k % 4 == 2:
        opts["force_poll_mesh"] = True
    con = None
    if cons:
        r = 1.5 if geo != "opt_outside" else 0.9
        con = ("ball", float(r))
    return dict(D=D, geo=geo, mode=mode, center=center, lb=lb, ub=ub, plb=plb, pub=pub, x0=x0, sigma=sigma, opts=opts, cons=con, k=k)


class SimError(Exception):
    """A user exception whose constructor needs two arguments (so it cannot be re-created from a message)."""

    def __init__(self, code, detail):
        super().__init__(code, detail)
        self.code = code
        self.detail = detail


class Target:
    def __init__(self, p, noise_rng, fault_at=None, fault=None):
        self.p = p
        self.calls = []
        self.vals = []
        self.sds = []
        self.rng = noise_rng
        self.fault_at = fault_at
        self.fault = fault
        self.n = 0

    def __call__(self, x):
        self.n += 1
        x = np.array(x, dtype=float).copy()
        self.calls.append(x)
        if self.fault_at is not None and self.n == self.fault_at:
            self.vals.append(None)
            if self.fault == "raise":
                raise SimError(3, "injected target failure")
            return FAULT_VALUES[self.fault](self.p["mode"] == "specified_noise")
        p = self.p
        if p["geo"] == "log":
            y = float(np.sum((np.log(x) - np.log(p["center"])) ** 2))
        else:
            y = float(np.sum((x - p["center"]) ** 2) + 0.3 * np.sum(np.abs(x - p["center"])))
        sd = p["sigma"]
        if p["mode"] == "specified_noise":
            # heteroskedastic: the reported SD depends on the point (so that an SD taken from another point is visible)
            sd = p["sigma"] * (0.5 + 1.0 / (1.0 + abs(float(x[0]) - float(p["center"][0]))))
        if p["sigma"] > 0:
            y = y + sd * float(self.rng.standard_normal())
        self.vals.append(y)
        if p["mode"] == "specified_noise":
            self.sds.append(sd)
            return y, sd
        self.sds.append(None)
        return y


FAULT_VALUES = {
    "nan": lambda he: (np.nan, 0.5) if he else np.nan,
    "inf": lambda he: (np.inf, 0.5) if he else np.inf,
    "ninf": lambda he: (-np.inf, 0.5) if he else -np.inf,
    "complex": lambda he: (1 + 2j, 0.5) if he else (1 + 2j),
    "vector": lambda he: (np.array([1.0, 2.0]), 0.5) if he else np.array([1.0, 2.0]),
    "none": lambda he: (None, 0.5) if he else None,
    "bad_sd_zero": lambda he: (1.0, 0.0) if he else np.nan,
    "bad_sd_nan": lambda he: (1.0, np.nan) if he else np.nan,
    "not_pair": lambda he: 1.0 if he else np.nan,
}


def cons_fun(p):
    if p["cons"] is None:
        return None
    r = p["cons"][1]
    c0 = (p["plb"] + p["pub"]) / 2.0

    def f(x):
        x = np.atleast_2d(x)
        return np.sum((x - c0) ** 2, axis=1) > r * r

    return f


def build(p, target):
    con = cons_fun(p)
    x0 = p["x0"]
    if con is not None and x0 is not None and con(x0)[0]:
        x0 = (p["plb"] + p["pub"]) / 2.0
    return BADS(target, x0, p["lb"], p["ub"], p["plb"], p["pub"], non_box_cons=con, options=dict(p["opts"])), con


# ---------------------------------------------------------------------------------------------------------
# monitors (installed by monkeypatching from outside; /repo is not modified)
# ---------------------------------------------------------------------------------------------------------
class Monitors:
    def __init__(self, viol, want):
        self.viol = viol
        self.want = want
        self.saved = []
        self.counts = {}
        self.cons_args = []
        self.poll_events = []

    def count(self, k, n=1):
        self.counts[k] = self.counts.get(k, 0) + n

    def patch(self, obj, name, new):
        self.saved.append((obj, name, getattr(obj, name)))
        setattr(obj, name, new)

    def restore(self):
        for obj, name, old in reversed(self.saved):
            setattr(obj, name, old)
        self.saved = []

    def install(self, key):
        mon = self
        # --- C13: mesh rule around every poll step --------------------------------------------------------
        orig_poll = BADS._poll_step_
        orig_pm = bads_mod.poll_mads_2n
        last_B = {}

        def pm(dim_x, poll_scale, search_mesh_size, mesh_size):
            Bn = orig_pm(dim_x, poll_scale, search_mesh_size, mesh_size)
            last_B["B"], last_B["ps"], last_B["mesh"] = Bn.copy(), np.array(poll_scale, dtype=float).copy(), mesh_size
            M = (Bn * poll_scale)[:dim_x]
            if Bn.shape != (2 * dim_x, dim_x) or not np.allclose(Bn[dim_x:], -Bn[:dim_x]):
                mon.viol.add("C14.plus_minus_pairs", key)
            if abs(np.linalg.det(M)) < 1e-9 or not np.allclose(M, np.round(M)):
                mon.viol.add("C14.nonsingular_integer_basis", key, M=jsonable(M))
            if search_mesh_size <= mesh_size and not np.allclose(np.sort(np.abs(M), axis=None)[-dim_x:], 1) :
                mon.viol.add("C14.default_signed_coordinate_directions", key, M=jsonable(M))
            return Bn

        self.patch(bads_mod, "poll_mads_2n", pm)

        def poll(b, gp):
            k0 = b.mesh_size_integer
            ssi0 = b.optim_state["search_size_integer"]
            fval0 = b.fval
            suff = float(np.asarray(b.sufficient_improvement).item())
            it = b.optim_state["iter"]
            fc0 = b.function_logger.func_count
            u0 = np.array(b.u, dtype=float).copy()
            n0 = b.function_logger.Xn
            r = orig_poll(b, gp)
            if "B" in last_B and b.function_logger.Xn > n0 and not b.function_logger.he_noise_flag:
                dirs = (last_B["B"] * last_B["mesh"]) * last_B["ps"]
                pts = b.function_logger.X[n0 + 1: b.function_logger.Xn + 1]
                seen_dirs = []
                for pnt in pts:
                    d = np.abs(u0 + dirs - pnt).max(axis=1)
                    jmin = int(np.argmin(d))
                    if d[jmin] > 1e-9 * max(1.0, np.abs(pnt).max()):
                        mon.viol.add("C14.polled_point_is_incumbent_plus_mesh_times_direction", key, point=jsonable(pnt), incumbent=jsonable(u0), mesh=float(last_B["mesh"]))
                        break
                    if jmin in seen_dirs:
                        mon.viol.add("C14.each_direction_at_most_once", key)
                    seen_dirs.append(jmin)
            k1 = b.mesh_size_integer
            f_best = r[1]
            mon.count("polls")
            cap = b.options["max_poll_grid_number"]
            good = (b.optim_state["uncertainty_handling_level"] == 0 and not b.options["stobads"]) and (fval0 - f_best > suff)
            det = b.optim_state["uncertainty_handling_level"] == 0 and not b.options["stobads"]
            if det:
                if good and k1 != min(k0 + 1, cap):
                    mon.viol.add("C13.success_doubles", key, k0=int(k0), k1=int(k1), gain=float(fval0 - f_best), suff=suff)
                if (not good) and k1 not in (k0 - 1, k0 - 2):
                    mon.viol.add("C13.failure_halves_or_quarters", key, k0=int(k0), k1=int(k1))
                if (not good) and k1 == k0 - 2 and not (b.options["accelerate_mesh"] and it > b.options["accelerate_mesh_steps"]):
                    mon.viol.add("C13.quartered_without_stall", key, k0=int(k0), k1=int(k1), iter=int(it))
            if not (k1 == min(k0 + 1, cap) or k1 in (k0 - 1, k0 - 2)):
                mon.viol.add("C13.mesh_rule", key, k0=int(k0), k1=int(k1))
            if abs(b.mesh_size - 2.0 ** k1) > 0 or k1 > 0:
                mon.viol.add("C13.power_of_two_le_one", key, mesh=float(b.mesh_size), k=int(k1))
            if b.optim_state["search_size_integer"] > k1:
                mon.viol.add("C13.search_mesh_le_poll_mesh", key, ssi=int(b.optim_state["search_size_integer"]), k=int(k1))
            if b.function_logger.func_count - fc0 > 2 * b.D:
                mon.viol.add("C14.at_most_2D_polled", key, n=int(b.function_logger.func_count - fc0))
            return r

        self.patch(BADS, "_poll_step_", poll)
        orig_search = BADS._search_step_

        def search(b, gp):
            k0, s0 = b.mesh_size_integer, b.optim_state["search_size_integer"]
            fc0 = b.function_logger.func_count
            r = orig_search(b, gp)
            mon.count("searches")
            if b.mesh_size_integer != k0 or b.optim_state["search_size_integer"] != s0:
                mon.viol.add("C13.mesh_untouched_outside_polls", key, k0=int(k0), k1=int(b.mesh_size_integer))
            if b.function_logger.func_count - fc0 > 1:
                mon.viol.add("C18.at_most_one_eval", key, n=int(b.function_logger.func_count - fc0))
            return r

        self.patch(BADS, "_search_step_", search)
        # --- C17: candidate filter -------------------------------------------------------------------------
        orig_cc = cc_mod.contraints_check

        def cc(U, lb, ub, tol_mesh, function_logger, proj=True, non_box_cons=None):
            R = orig_cc(U, lb, ub, tol_mesh, function_logger, proj, non_box_cons)
            mon.count("filters")
            if R.size:
                if np.any(R < lb) or np.any(R > ub):
                    mon.viol.add("C17.in_box", key, row=jsonable(R[0]), lb=jsonable(lb), ub=jsonable(ub))
                if len(np.unique(R, axis=0)) != len(R):
                    mon.viol.add("C17.pairwise_distinct", key, n=len(R))
                if non_box_cons is not None:
                    C = non_box_cons(function_logger.variable_transformer.inverse_transf(R))
                    if np.any(C > 0):
                        mon.viol.add("C17.feasible", key, row=jsonable(R[np.argmax(C > 0)]))
                tol = tol_mesh / 2.0
                X = function_logger.X[: function_logger.X_max_idx + 1]
                if len(X):
                    a, bb = np.round(R / tol), np.round(X / tol)
                    hit = (a[:, None, :] == bb[None, :, :]).all(axis=2).any(axis=1)
                    if np.any(hit):
                        mon.count("already_evaluated_kept", int(hit.sum()))
            return R

        for m in (cc_mod, bads_mod, es_mod):
            if hasattr(m, "contraints_check"):
                self.patch(m, "contraints_check", cc)
        import pybads.function_logger as flpkg
        if hasattr(flpkg, "contraints_check"):
            self.patch(flpkg, "contraints_check", cc)
        # --- C15: every GP training set consists of logged pairs (variance = logged SD squared); incremental add -------
        orig_lgf = bads_mod.local_gp_fitting

        def lgf(gp, current_point, function_logger, options, optim_state, iteration_history, refit_flag):
            r = orig_lgf(gp, current_point, function_logger, options, optim_state, iteration_history, refit_flag)
            g = r[0]
            mon.count("gp_fits")
            fl = function_logger
            m = fl.X_max_idx + 1
            LX, LY = fl.X[:m], fl.Y[:m]
            for k in range(len(g.X)):
                rows = [i for i in range(m) if np.array_equal(LX[i], g.X[k]) and LY[i, 0] == np.asarray(g.y).reshape(-1)[k]]
                if not rows:
                    mon.viol.add("C15.training_pairs_are_logged_evaluations", key, row=int(k))
                    break
                if fl.noise_flag and g.s2 is not None and np.size(g.s2) == len(g.X):
                    if not any(np.isclose(np.asarray(g.s2).reshape(-1)[k], fl.S[i, 0] ** 2, rtol=1e-10, equal_nan=True) for i in rows):
                        mon.viol.add("C15.training_pairs_are_logged_evaluations", key, what="noise is not the logged SD squared", row=int(k),
                                     got=float(np.asarray(g.s2).reshape(-1)[k]), logged_sd=[float(fl.S[i, 0]) for i in rows], s2_shape=list(np.shape(g.s2)), n=int(len(g.X)))
                        break
            return r

        self.patch(bads_mod, "local_gp_fitting", lgf)
        orig_add = bads_mod.add_and_update_gp

        def add(function_logger, gp, x_new, y_new, sd_new=None, options=None):
            n0 = len(gp.X)
            g = orig_add(function_logger, gp, x_new, y_new, sd_new, options)
            mon.count("gp_adds")
            fl = function_logger
            i = fl.Xn
            if len(g.X) != n0 + 1 or not np.array_equal(g.X[-1], np.asarray(x_new).reshape(-1)):
                mon.viol.add("C15.appends_exactly_the_new_pair", key)
            rows = [j for j in range(fl.X_max_idx + 1) if np.array_equal(fl.X[j], g.X[-1])]
            if not rows or not any(fl.Y[j, 0] == np.asarray(g.y).reshape(-1)[-1] or fl.n_evals[j, 0] > 1 for j in rows):
                mon.viol.add("C15.added_pair_is_the_evaluation_just_logged", key, logged_row=int(i))
            if options["specify_target_noise"] and sd_new is not None and g.s2 is not None and np.size(g.s2) == len(g.X):
                if not np.isclose(np.asarray(g.s2).reshape(-1)[-1], float(sd_new) ** 2, rtol=1e-10):
                    mon.viol.add("C15.supplied_noise_enters_as_variance", key, got=float(np.asarray(g.s2).reshape(-1)[-1]), sd=float(sd_new))
            return g

        self.patch(bads_mod, "add_and_update_gp", add)
        # --- C18: the ES proposal is the acquisition minimum of the surviving candidates; hedge probabilities ------
        rec = {"on": False, "c": [], "z": []}
        es_cc = es_mod.contraints_check  # already the monitored filter
        es_acq = es_mod.acq_fcn_lcb

        def cc18(*a, **k):
            R = es_cc(*a, **k)
            if rec["on"]:
                rec["c"].append(np.array(R, copy=True))
            return R

        def acq18(*a, **k):
            r = es_acq(*a, **k)
            if rec["on"]:
                rec["z"].append(np.array(r[0], copy=True).flatten())
            return r

        self.patch(es_mod, "contraints_check", cc18)
        self.patch(es_mod, "acq_fcn_lcb", acq18)
        orig_es = es_mod.ESSearch.__call__

        def es_call(s, u, lb, ub, func_logger, gp, optim_state, sum_rule=True, non_box_cons=None):
            rec["on"], rec["c"], rec["z"] = True, [], []
            try:
                us, z = orig_es(s, u, lb, ub, func_logger, gp, optim_state, sum_rule, non_box_cons)
            finally:
                rec["on"] = False
            mon.count("es_searches")
            C = np.vstack(rec["c"]) if rec["c"] else np.zeros((0, len(np.atleast_1d(us))))
            Z = np.concatenate(rec["z"]) if rec["z"] else np.zeros(0)
            if len(C) == len(Z) and len(Z):
                zz = float(np.asarray(z).item())
                hit = [k for k in range(len(C)) if np.array_equal(C[k], us)]
                if not hit or not any(Z[k] == zz for k in hit):
                    mon.viol.add("C18.proposal_is_a_surviving_candidate", key, z=zz)
                elif zz > Z.min():
                    mon.viol.add("C18.proposal_has_lowest_acquisition", key, z=zz, best=float(Z.min()))
                if np.any(C < optim_state["lb_search"]) or np.any(C > optim_state["ub_search"]):
                    mon.viol.add("C18.all_candidates_in_mesh_rounded_box", key)
            return us, z

        self.patch(es_mod.ESSearch, "__call__", es_call)
        import pybads.search.search_hedge as hedge_mod
        orig_hedge = hedge_mod.ESSearchHedge.__call__

        def hedge_call(h, *a, **k):
            try:
                return orig_hedge(h, *a, **k)
            finally:
                p_ = np.asarray(getattr(h, "prob", [1.0]), dtype=float)
                mon.count("hedge_draws")
                if abs(p_.sum() - 1) > 1e-12:
                    mon.viol.add("C18.probabilities_sum_to_one", key, prob=p_.tolist())
                if np.any(p_ < h.gamma - 1e-15):
                    mon.viol.add("C18.probabilities_at_least_floor", key, prob=p_.tolist())

        self.patch(hedge_mod.ESSearchHedge, "__call__", hedge_call)


def check_run(p, b, con, target, res, viol, key, exc=None):
    """Run-level oracles (C01, C02, C03, C04, C05, C12, C19)."""
    fl = b.function_logger
    vt = b.var_transf
    olb, oub = vt.orig_lb.flatten(), vt.orig_ub.flatten()
    for i, x in enumerate(target.calls):
        if np.any(x < olb) or np.any(x > oub):
            viol.add("C01.target_arg_in_hard_box", key, call=i + 1, x=jsonable(x))
            break
    if con is not None:
        for i, x in enumerate(target.calls):
            if con(x)[0]:
                viol.add("C02.target_arg_feasible", key, call=i + 1, x=jsonable(x))
                break
    n = fl.Xn + 1
    X, Xo = fl.X[:n], fl.X_orig[:n]
    if n and (np.any(X < b.lower_bounds) or np.any(X > b.upper_bounds)):
        viol.add("C01.logged_u_in_transformed_box", key)
    if n and not np.allclose(vt.inverse_transf(X), Xo, rtol=1e-12, atol=1e-12, equal_nan=True):
        viol.add("C01.logged_pair_maps_back", key)
    B0 = p["opts"]["max_fun_evals"]
    valid = sum(1 for v in target.vals if v is not None)
    if exc is None:
        if target.n > B0:
            viol.add("C03.within_budget", key, calls=target.n, budget=B0)
        if fl.func_count != target.n:
            viol.add("C03.honest_count", key, func_count=int(fl.func_count), calls=target.n)
    else:
        if fl.func_count != valid:
            viol.add("C10.only_valid_calls_counted", key, func_count=int(fl.func_count), valid=valid, calls=target.n)
    if res is None:
        return
    if res["func_count"] != target.n:
        viol.add("C03.reported_func_count", key, reported=int(res["func_count"]), calls=target.n)
    if "max_iter" in p["opts"] and res["iterations"] > p["opts"]["max_iter"]:
        viol.add("C03.polls_within_max_iter", key, iterations=int(res["iterations"]))
    msg = res["message"]
    if not msg:
        viol.add("C03.message_nonempty", key)
    if "max_fun_evals" in msg and not fl.func_count >= b.options["max_fun_evals"]:
        viol.add("C03.message_true", key, msg=msg)
    if "tol_mesh" in msg and not b.optim_state["mesh_size"] < b.optim_state["tol_mesh"]:
        viol.add("C13.mesh_message_true", key, mesh=float(b.optim_state["mesh_size"]))
    x = np.asarray(res["x"]).flatten()
    if np.any(x < olb) or np.any(x > oub):
        viol.add("C01.returned_x_in_hard_box", key, x=jsonable(x))
    if con is not None and con(x)[0]:
        viol.add("C02.returned_x_feasible", key, x=jsonable(x))
    det = b.optim_state["uncertainty_handling_level"] == 0
    if det and p["sigma"] == 0:
        idx = [i for i, c in enumerate(target.calls) if np.array_equal(c, x)]
        if not idx:
            viol.add("C04.x_was_evaluated", key, x=jsonable(x))
        elif not any(target.vals[i] == res["fval"] for i in idx):
            viol.add("C04.fval_is_value_at_x", key, fval=float(res["fval"]))
        best = min(v for v in target.vals if v is not None)
        if best < res["fval"]:
            viol.add("C04.no_better_point_discarded", key, fval=float(res["fval"]), best=float(best), call=int(np.argmin([v if v is not None else np.inf for v in target.vals])) + 1)
        if res["fsd"] != 0 or res["target_type"] != "deterministic":
            viol.add("C04.fsd_zero_deterministic", key)
        fv = [v for v in (b.iteration_history.get("fval") if b.iteration_history.get("fval") is not None else []) if v is not None]
        if any(fv[i + 1] > fv[i] for i in range(len(fv) - 1)):
            viol.add("C04.incumbent_never_increases", key)
        # no repeated evaluation except the noise test
        seen = {}
        for i, c in enumerate(target.calls):
            seen.setdefault(tuple(c.tolist()), []).append(i)
        rep = [v for v in seen.values() if len(v) > 1 and v != [0, 1]]
        if rep:
            viol.add("C17.no_repeat_evaluation", key, calls=[i + 1 for i in rep[0]])
    # C19: history consistency
    h = b.iteration_history
    hx, hy, hfc = h.get("x"), h.get("yval"), h.get("func_count")
    if hx is not None and det and p["sigma"] == 0:
        for k_, (xx, yy) in enumerate(zip(hx, hy)):
            if xx is None:
                continue
            xx = np.asarray(xx).flatten()
            idx = [i for i, c in enumerate(target.calls) if np.array_equal(c, xx)]
            if not idx or not any(target.vals[i] == yy for i in idx):
                viol.add("C19.recorded_pair_was_observed", key, iteration=k_)
                break
        last = [xx for xx in hx if xx is not None][-1]
        if not np.array_equal(np.asarray(last).flatten(), x):
            viol.add("C19.returned_x_is_last_iterate", key)
    if hx is not None and not (det and p["sigma"] == 0):
        # noisy runs: the recorded observed value must be a value observed AT the recorded point (within the range of the observations there)
        for k_, (xx, yy) in enumerate(zip(hx, hy)):
            if xx is None or yy is None:
                continue
            xx = np.asarray(xx).flatten()
            obs = [target.vals[i] for i, c in enumerate(target.calls) if np.array_equal(c, xx) and target.vals[i] is not None]
            if not obs:
                viol.add("C19.recorded_point_was_evaluated", key, iteration=k_)
                break
            if not (min(obs) - 1e-12 <= yy <= max(obs) + 1e-12):
                viol.add("C19.recorded_value_observed_at_recorded_point", key, iteration=k_, yval=float(yy), observed_there=[float(o) for o in obs][:5])
                break
        if not any(xx is not None and np.array_equal(np.asarray(xx).flatten(), x) for xx in hx):
            viol.add("C19.returned_x_is_a_recorded_iterate", key)
    if hfc is not None:
        f = [v for v in hfc if v is not None]
        if any(f[i + 1] < f[i] for i in range(len(f) - 1)) or (f and f[-1] > res["func_count"]):
            viol.add("C19.func_count_monotone", key)
    # C05: noisy tail
    if not det:
        nfs = b.options["noise_final_samples"]
        if nfs > 0 and res["iterations"] > 0:
            tail = target.calls[-nfs:]
            if not all(np.array_equal(c, x) for c in tail):
                viol.add("C05.final_samples_at_returned_x", key)
            yv = np.asarray(res["yval_vec"]).flatten()
            fresh = np.array(target.vals[-nfs:], dtype=float)
            if not np.array_equal(yv[:nfs], fresh):
                viol.add("C05.yval_vec_is_fresh_samples", key)
            if abs(res["fval"] - float(np.mean(yv))) > 1e-12 or abs(res["fsd"] - float(np.std(yv) / np.sqrt(yv.size))) > 1e-12:
                viol.add("C05.fval_is_mean_fsd_is_sem", key)
            if p["mode"] == "specified_noise" and res.get("ysd_vec") is not None:
                sv = np.asarray(res["ysd_vec"], dtype=float).flatten()
                if not np.array_equal(sv[:nfs], np.array(target.sds[-nfs:], dtype=float)):
                    viol.add("C05.ysd_vec_is_reported_sds", key, got=sv[:nfs].tolist(), reported=[float(v) for v in target.sds[-nfs:]])
                if nfs == 1 and sv.size == 2:
                    at_x = [target.sds[i] for i, c in enumerate(target.calls[:-nfs]) if np.array_equal(c, x) and target.sds[i] is not None]
                    # the log row may hold the precision-weighted SD of several merged observations at x: sd / sqrt(n) at least
                    n_at_x = sum(1 for c in target.calls if np.allclose(c, x, rtol=0, atol=1e-12))
                    if at_x and not (min(at_x) / np.sqrt(max(1, n_at_x)) - 1e-12 <= sv[1] <= max(at_x) + 1e-12):
                        viol.add("C05.ysd_vec_supplement_is_sd_reported_at_x", key, got=float(sv[1]), reported_at_x=[float(v) for v in at_x][:4])
        if not any(np.array_equal(c, x) for c in target.calls[: max(1, len(target.calls) - nfs)]):
            viol.add("C05.x_evaluated_earlier", key)


def run_one(p, viol, want, noise_seed, fault_at=None, fault=None, gpfault=None, gpnan=None):
    key = "k%d:%s:%s:D%d%s" % (p["k"], p["geo"], p["mode"], p["D"], (":fault%s@%d" % (fault, fault_at)) if fault else "")
    if gpfault:
        key += ":gpfit-fails@" + ",".join(str(i) for i in sorted(gpfault))
    mon = Monitors(viol, want)
    target = Target(p, np.random.default_rng(noise_seed), fault_at, fault)
    mon.install(key)
    nviol0 = len(viol)
    if gpnan:
        # C09: the GP prediction at a single query point (incumbent / target update) is non-finite at the k-th such call
        import gpyreg as _g
        orig_pred = _g.GP.predict
        pc = {"n": 0}

        def pred(g, x, *a_, **k_):
            mu, s2 = orig_pred(g, x, *a_, **k_)
            if np.shape(x)[0] == 1:
                pc["n"] += 1
                if pc["n"] in gpnan:
                    mu = mu * np.nan
            return mu, s2

        mon.patch(_g.GP, "predict", pred)
        key += ":gp-prediction-nan@" + ",".join(str(i) for i in sorted(gpnan))
    if gpfault:
        # C16: the k-th GP hyper-parameter fit of the run fails with a linear-algebra error (gpyreg's Cholesky)
        import gpyreg
        orig_fit = gpyreg.GP.fit
        st_ = {"n": 0, "hit": 0}

        def fit(g, *a_, **k_):
            i = st_["n"]
            st_["n"] += 1
            if i in gpfault:
                st_["hit"] += 1
                raise np.linalg.LinAlgError("injected: matrix is not positive definite (fit #%d)" % i)
            return orig_fit(g, *a_, **k_)

        mon.patch(gpyreg.GP, "fit", fit)
    b = res = con = None
    exc = None
    try:
        b, con = build(p, target)
        if target.n != 0:
            viol.add("C08.no_target_call_at_construction", key, calls=target.n)
        res = b.optimize()
    except Exception as ex:  # noqa: BLE001
        exc = ex
    finally:
        mon.restore()
    info = {"key": key, "calls": target.n, "counts": mon.counts, "exc": None if exc is None else type(exc).__name__}
    if gpfault:
        info["gp_fits"], info["gp_fit_faults_hit"] = st_["n"], st_["hit"]
        if exc is not None and st_["hit"]:
            tb = traceback.extract_tb(exc.__traceback__)
            inner = [f for f in tb if "pybads" in f.filename]
            viol.add("C16.optimize_completes_despite_fit_failures", key, exc=type(exc).__name__ + ": " + str(exc)[:200], faults_hit=st_["hit"],
                     where=("%s:%d" % (inner[-1].filename.split("/pybads/")[-1], inner[-1].lineno)) if inner else None)
    if exc is not None:
        if fault is None:
            tb = traceback.extract_tb(exc.__traceback__)
            inner = [f for f in tb if "pybads" in f.filename]
            cls = "budget-not-above-initial-design" if ("cannot convert float NaN to integer" in str(exc) and inner and inner[-1].name == "_get_gp_training_options") else "other"
            viol.add("C09.no_internal_error", key, exc=type(exc).__name__ + ": " + str(exc)[:200], where=("%s:%d" % (inner[-1].filename.split("/pybads/")[-1], inner[-1].lineno)) if inner else None,
                     trace=["%s:%d %s" % (f.filename.split("/pybads/")[-1], f.lineno, f.name) for f in inner[-4:]], **{"class": cls})
        else:
            if fault == "raise" and not isinstance(exc, SimError):
                viol.add("C10.same_exception_type", key, got=type(exc).__name__)
            if fault != "raise" and not isinstance(exc, ValueError):
                viol.add("C10.invalid_value_is_ValueError", key, got=type(exc).__name__ + ": " + str(exc)[:120])
            if target.n != fault_at:
                viol.add("C10.no_call_after_failure", key, calls=target.n, fault_at=fault_at)
    elif fault is not None and fault_at is not None and target.n >= fault_at:
        viol.add("C10.failure_surfaces", key, fault=fault, fault_at=fault_at)
    if b is not None and hasattr(b, "function_logger"):
        try:
            check_run(p, b, con, target, res, viol, key, exc)
        except Exception as ex:  # noqa: BLE001
            info["oracle_error"] = repr(ex)[:300]
    if gpfault and st_["hit"]:
        broken = sorted(set(v["clause"] for v in viol[nviol0:] if not v["clause"].startswith(("C16.", "C17.no_repeat", "C09."))))
        if broken:
            viol.add("C16.other_guarantees_hold_after_fit_failures", key, clauses=broken)
    return info


def main():
    ap = argparse.ArgumentParser()
    ap.add_argument("--prop", default="all")
    ap.add_argument("--runs", type=int, default=8)
    ap.add_argument("--seed", type=int, default=0)
    ap.add_argument("--faults", type=int, default=0)
    ap.add_argument("--kinds", default=None)
    ap.add_argument("--gpfaults", type=int, default=0)
    ap.add_argument("--rare", type=int, default=0)
    ap.add_argument("--obligation", default=None)
    ap.add_argument("--input", default=None)
    a = ap.parse_args()
    t0 = time.time()
    rng = np.random.default_rng(1000 + a.seed)
    viol = Viol()
    infos = []
    ps = problems(rng, a.runs, a.kinds.split(",") if a.kinds else None)
    for i, p in enumerate(ps):
        infos.append(run_one(p, viol, a.prop, a.seed * 1000 + i))
    if a.faults:
        faults = ["raise", "nan", "inf", "none", "vector", "complex", "ninf", "bad_sd_zero", "bad_sd_nan", "not_pair"]
        for j in range(a.faults):
            p = ps[j % len(ps)] if ps else make_problem(rng, 2, "sym", "det", False, j)
            f = faults[j % len(faults)]
            if f in ("bad_sd_zero", "bad_sd_nan", "not_pair") and p["mode"] != "specified_noise":
                p = make_problem(rng, 2, "sym", "specified_noise", False, 100 + j)
            at = int(rng.integers(1, 40))
            infos.append(run_one(p, viol, a.prop, a.seed * 1000 + 500 + j, fault_at=at, fault=f))
    for j in range(a.rare):
        # C09: rare internal histories - every ES candidate infeasible (tiny feasible ball around the start point), repeated
        # observation of a logged point under specified noise (D = 1), a non-finite GP prediction at the incumbent, noisy runs that
        # stop in their first iteration or whose budget barely exceeds the initial design
        kind = j % 5
        if kind == 0:
            p = make_problem(rng, int(rng.integers(1, 4)), "sym", ["det", "declared_noise"][j // 5 % 2], False, 300 + j)
            p["cons"] = ("ball", float(rng.choice([0.02, 0.05, 0.2])))
            p["x0"] = (p["plb"] + p["pub"]) / 2.0
            infos.append(run_one(p, viol, a.prop, a.seed * 1000 + 700 + j))
        elif kind == 1:
            p = make_problem(rng, 1, ["sym", "tight", "log"][j // 5 % 3], "specified_noise", False, 300 + j)
            infos.append(run_one(p, viol, a.prop, a.seed * 1000 + 700 + j))
        elif kind == 2:
            p = make_problem(rng, int(rng.integers(1, 4)), "sym", ["declared_noise", "det", "specified_noise"][j // 5 % 3], False, 300 + j)
            if p["mode"] == "det":
                p["opts"]["uncertain_incumbent"] = True
            infos.append(run_one(p, viol, a.prop, a.seed * 1000 + 700 + j, gpnan={int(rng.integers(1, 12))}))
        elif kind == 3:
            p = make_problem(rng, int(rng.integers(1, 4)), "sym", ["declared_noise", "specified_noise"][j // 5 % 2], False, 300 + j)
            p["opts"]["max_iter"] = 1
            infos.append(run_one(p, viol, a.prop, a.seed * 1000 + 700 + j))
        else:
            p = make_problem(rng, int(rng.integers(1, 4)), "sym", ["declared_noise", "specified_noise", "auto_noise"][j // 5 % 3], False, 300 + j)
            p["opts"]["max_fun_evals"] = int(p["D"] + 2 + rng.integers(0, 4))
            p["opts"]["noise_final_samples"] = int(rng.choice([0, 1]))
            infos.append(run_one(p, viol, a.prop, a.seed * 1000 + 700 + j))
    for j in range(a.gpfaults):
        # single faults, runs of 2-4 consecutive faults, scattered multiple faults; every noise mode
        p = ps[j % len(ps)] if ps else make_problem(rng, 2, "sym", "det", False, j)
        if j % 3 == 2:
            p = make_problem(rng, int(rng.integers(1, 4)), "sym", "specified_noise", False, 200 + j)
        k0 = int(rng.integers(0, 5))  # a run makes only a handful of hyper-parameter fits (most refits are posterior updates)
        shape = j % 4
        if shape == 0:
            sched = {k0}
        elif shape == 1:
            sched = set(range(k0, k0 + int(rng.integers(2, 5))))
        elif shape == 2:
            sched = set(int(x) for x in rng.integers(0, 9, size=int(rng.integers(2, 5))))
        else:
            sched = set(range(k0, k0 + 2)) | {k0 + 4}
        base = run_one(p, Viol(), a.prop, a.seed * 1000 + 900 + j)
        if base["exc"] is not None:
            # the problem does not complete even without an injected failure (a C09 matter): not a C16 observation
            infos.append({"key": base["key"] + ":gpfault-skipped", "skipped": "run fails without injected failures: " + str(base["exc"]), "gp_fits": 0, "gp_fit_faults_hit": 0, "exc": base["exc"]})
            continue
        infos.append(run_one(p, viol, a.prop, a.seed * 1000 + 900 + j, gpfault=sched))
    pref = None if a.prop == "all" else a.prop + "."
    vs = [v for v in viol if pref is None or v["clause"].startswith(pref)]
    others = sorted(set(v["clause"] for v in viol if v not in vs))
    print(json.dumps({"status": "violation" if vs else "ok", "violations": jsonable(vs), "runs": len(infos), "other_clauses_fired": others,
                      "evaluations": len(infos), "samples": infos[:3] + [i for i in infos if "gp_fits" in i][:40], "secs": round(time.time() - t0, 1)}))


if __name__ == "__main__":
    main()
