"""Bounded stand-in / replay search for C15 on the real training-set functions (no GP fit needed):
get_grid_search_neighbors, _get_fevals_data, add_and_update_gp, acq_fcn_lcb against independent recomputation.
One JSON line."""
import argparse
import json
import os
import sys
import warnings

warnings.filterwarnings("ignore")
import numpy as np  # noqa: E402

sys.path.insert(0, os.environ.get("PYVC_REPO", "/repo"))
from pybads.bads import gaussian_process_train as gpt  # noqa: E402
from pybads.acquisition_functions.acq_fcn_lcb import acq_fcn_lcb  # noqa: E402
from pybads.function_logger import FunctionLogger  # noqa: E402


class FakeGP:
    def __init__(self, D, rng, per_coord):
        self.temporary_data = {"len_scale": np.exp(rng.uniform(-1, 1, size=D)) if per_coord else float(np.exp(rng.uniform(-1, 1))), "effective_radius": float(rng.choice([0.1, 1.0, 3.0]))}
        self.X = np.zeros((0, D))
        self.y = np.zeros((0, 1))
        self.s2 = None
        self.updated = 0

    def update(self, **kw):
        self.updated += 1

    def predict(self, x, *a, **k):
        x = np.atleast_2d(x)
        return np.sum(x ** 2, axis=1, keepdims=True), 0.1 + np.abs(np.cos(x)).sum(axis=1, keepdims=True)


def one(rng, viol, key):
    D = int(rng.integers(1, 4))
    noisy = bool(rng.integers(0, 2))
    n = int(rng.integers(1, 40))

    def fun(x):
        y = float(np.sum(np.asarray(x) ** 2) + rng.normal())
        return (y, float(rng.choice([0.25, 0.5, 2.0, 3.0]))) if noisy else y

    fl = FunctionLogger(fun, D, noisy, 2 if noisy else 0, cache_size=int(rng.choice([4, 500])))
    for _ in range(n):
        x = np.round(rng.uniform(-2, 2, size=D) * 4) / 4
        fl(x)  # repeated points included (merged rows in the noisy mode)
    gp = FakeGP(D, rng, bool(rng.integers(0, 2)))
    options = {"gp_radius": float(rng.choice([0.5, 3.0])), "n_train_max": int(rng.integers(1, 30)), "n_train_min": int(rng.integers(1, 12)), "buffer_ntrain": int(rng.integers(0, 8)),
               "specify_target_noise": noisy}
    state = {"lb": -3 * np.ones((1, D)), "ub": 3 * np.ones((1, D)), "scale": 1.0, "periodic_vars": np.zeros(D, dtype=bool)}
    u = np.round(rng.uniform(-1, 1, size=(1, D)) * 4) / 4
    cfg = dict(D=D, noisy=noisy, n=n, options={k: v for k, v in options.items()})

    def bad(clause, **kw):
        if len(viol) < 6:
            viol.append(dict(clause=clause, key=key, config=cfg, **kw))

    X, Y, S2 = gpt.get_grid_search_neighbors(fl, u, gp, options, state)
    m = fl.X_max_idx + 1
    LX, LY = fl.X[:m], fl.Y[:m]
    ls = gp.temporary_data["len_scale"]
    dist = np.sum(((LX - u) / ls) ** 2, axis=1)
    order = np.argsort(dist, kind="stable")
    nt = len(X)
    if not (nt <= m and nt >= min(m, options["n_train_min"]) and nt >= min(m, options["n_train_max"] - options["buffer_ntrain"]) and nt <= max(options["n_train_max"], options["n_train_min"])):
        bad("C15.size_respects_configured_minimum_and_maximum", ntrain=int(nt), logged=int(m))
    for k in range(nt):
        rows = [i for i in range(m) if np.array_equal(LX[i], X[k]) and LY[i, 0] == Y[k, 0]]
        if not rows:
            bad("C15.training_pairs_are_logged_evaluations", row=k)
            break
        if noisy and not any(np.isclose(S2[k, 0], fl.S[i, 0] ** 2, rtol=1e-12) for i in rows):
            bad("C15.training_pairs_are_logged_evaluations", what="supplied noise is not the logged SD squared", got=float(S2[k, 0]), logged_sd=float(fl.S[rows[0], 0]))
            break
    dk = np.sum(((X - u) / ls) ** 2, axis=1)
    if np.any(np.diff(dk) < -1e-12):
        bad("C15.ordered_by_distance")
    if nt < m and nt > 0 and dk.max() > np.sort(dist)[nt - 1] + 1e-12:
        bad("C15.nearest_points_selected")
    if not noisy and S2 is not None:
        bad("C15.one_value_per_input")
    # initial full-data set
    x, y, s2, _ = gpt._get_fevals_data(fl)
    if len(x) != m or not np.array_equal(x, LX) or not np.array_equal(y, LY) or (noisy and not np.allclose(s2, fl.S[:m] ** 2, rtol=1e-12)) or (not noisy and s2 is not None):
        bad("C15.initial_training_pairs_are_logged_evaluations")
    # incremental add
    gp.X, gp.y, gp.s2 = X.copy(), Y.copy(), (S2.copy() if S2 is not None else None)
    xn = np.round(rng.uniform(-2, 2, size=D) * 4) / 4
    yv, sd, _ = fl(xn)
    g2 = gpt.add_and_update_gp(fl, gp, xn, yv, sd, options)
    if g2 is not gp or len(gp.X) != nt + 1 or not np.array_equal(gp.X[-1], xn) or gp.y[-1, 0] != yv or not np.array_equal(gp.X[:nt], X):
        bad("C15.appends_exactly_the_new_pair")
    if noisy and sd is not None and not (len(gp.s2) == nt + 1 and np.isclose(gp.s2[-1, 0], sd ** 2, rtol=1e-12)):
        bad("C15.supplied_noise_enters_as_variance", got=float(gp.s2[-1, 0]) if len(gp.s2) == nt + 1 else None, sd=float(sd))
    # acquisition
    xi = np.round(rng.uniform(-2, 2, size=(int(rng.integers(1, 6)), D)) * 4) / 4
    fc = int(rng.integers(0, 500))
    z, mu, s = acq_fcn_lcb(xi, fc, gp)
    pm, ps2 = gp.predict(xi)
    sb = np.sqrt(0.2 * 2 * np.log(D * (fc + 1) ** 2 * np.pi ** 2 / (6 * 0.1)))
    if not np.allclose(z, pm - sb * np.sqrt(ps2), rtol=1e-12, atol=0):
        bad("C15.lcb_is_mean_minus_sqrt_beta_times_sd", fc=fc)


def main():
    ap = argparse.ArgumentParser()
    ap.add_argument("--runs", type=int, default=300)
    ap.add_argument("--seed", type=int, default=0)
    ap.add_argument("--obligation", default=None)
    ap.add_argument("--input", default=None)
    a = ap.parse_args()
    viol = []
    for r in range(a.runs):
        rng = np.random.default_rng(1500 + 7919 * a.seed + r)
        one(rng, viol, "gptrain-%d-%d" % (a.seed, r))
    print(json.dumps({"status": "violation" if viol else "ok", "violations": viol, "evaluations": a.runs * 4, "runs": a.runs,
                      "bound": "%d random logs (D <= 3, <= 40 evaluations, repeats, with/without supplied noise, scalar and per-coordinate length scales)" % a.runs}))


if __name__ == "__main__":
    main()
