"""Deterministic witness of the recorded C17 finding (and nothing else): a candidate equal to an already
evaluated point must be removed by the filter according to the property; the real code keeps it."""
import json, os, sys, warnings
warnings.filterwarnings("ignore")
import numpy as np
sys.path.insert(0, os.environ.get("PYVC_REPO", "/repo"))
from pybads.function_logger import FunctionLogger, contraints_check
from pybads.variable_transformer import VariableTransformer

D = 2
vt = VariableTransformer(D, -5 * np.ones((1, D)), 5 * np.ones((1, D)), -2 * np.ones((1, D)), 2 * np.ones((1, D)))
fl = FunctionLogger(lambda x: float(np.sum(x ** 2)), D, False, 0, variable_transformer=vt)
fl(np.array([0.5, 0.25]))
U = np.array([[0.5, 0.25], [0.75, 0.0]])
R = contraints_check(U, vt.lb, vt.ub, 2.0 ** -10, fl, True, None)
kept = bool(len(R) and (R == np.array([0.5, 0.25])).all(axis=1).any())
v = [{"clause": "C17.no_repeat_evaluation", "key": "witness_c17", "evaluated": [0.5, 0.25], "candidates": U.tolist(), "returned": R.tolist()}] if kept else []
print(json.dumps({"status": "violation" if v else "ok", "violations": v, "evaluations": 1, "runs": 1}))
