"""Bounded stand-in for C20 on the real BADS constructor / Options class (the option loader is exec/eval/configparser/dict
code outside the verified fragment).  For every option name of the two option files and D in 1..3:
  - a user value for that option survives construction exactly (also when it feeds dependent defaults, which are then
    derived from it), every other option equals an independent evaluation of its file expression for this D;
  - an unknown option name raises ValueError at construction;
  - pairs / small subsets of overrides; several instances with different D and overrides constructed and run in different
    orders do not change each other's options; the caller's options dict and x0 / bounds arrays are left unchanged.
One JSON line."""
import argparse
import configparser
import copy
import json
import logging
import os
import sys
import warnings

warnings.filterwarnings("ignore")
logging.disable(logging.CRITICAL)
import numpy as np  # noqa: E402

sys.path.insert(0, os.environ.get("PYVC_REPO", "/repo"))
import pybads  # noqa: E402
from pybads import BADS  # noqa: E402

CFG = os.path.join(os.path.dirname(pybads.__file__), "bads", "option_configs")
FILES = [os.path.join(CFG, "basic_bads_options.ini"), os.path.join(CFG, "advanced_bads_options.ini")]


def read_file(path):
    conf = configparser.ConfigParser(comment_prefixes="", allow_no_value=True)
    conf.optionxform = str
    conf.read(path)
    out = []
    for sec in conf.sections():
        for k, v in conf.items(sec):
            if "#" not in k:
                out.append((k, v))
    return out


class Proxy(dict):
    pass


def expected(D, user):
    """Independent evaluation: user values first and protected; file expressions in file order, for this D."""
    cur = Proxy(user)
    for path in FILES:
        for k, expr in read_file(path):
            if k in user:
                continue
            cur[k] = eval(expr, {"np": np, "D": D, "self": cur, "__builtins__": __builtins__})
    return cur


def same(a, b):
    if callable(a) and callable(b):
        return True  # lambdas from the option files: compared by the values they produce elsewhere
    if isinstance(a, np.ndarray) or isinstance(b, np.ndarray):
        try:
            return np.array_equal(np.asarray(a, dtype=object), np.asarray(b, dtype=object)) or np.array_equal(a, b, equal_nan=True)
        except Exception:  # noqa: BLE001
            return False
    if isinstance(a, (list, tuple)) and isinstance(b, (list, tuple)):
        return len(a) == len(b) and all(same(x, y) for x, y in zip(a, b))
    if isinstance(a, float) and isinstance(b, float) and np.isnan(a) and np.isnan(b):
        return True
    return type(a) == type(b) and a == b or (a is None and b is None) or (isinstance(a, (int, float, np.number)) and isinstance(b, (int, float, np.number)) and a == b)


def tweak(v):
    if isinstance(v, (bool, np.bool_)):
        return not bool(v)
    if isinstance(v, (int, np.integer)):
        return int(v) + 1
    if isinstance(v, (float, np.floating)):
        return float(v) * 1.25 + 0.125 if np.isfinite(v) else 3.5
    if v is None:
        return 7
    if isinstance(v, str):
        return v + "_user"
    return None  # containers / callables: not overridden in the single-option sweep


def mk(D, opts):
    x0 = np.full((1, D), 0.5)
    lb, ub, plb, pub = -np.ones((1, D)) * 4, np.ones((1, D)) * 4, -np.ones((1, D)), np.ones((1, D))
    keep = [a.copy() for a in (x0, lb, ub, plb, pub)]
    b = BADS(lambda x: float(np.sum(np.asarray(x) ** 2)), x0, lb, ub, plb, pub, options=opts)
    return b, (x0, lb, ub, plb, pub), keep


def snapshot(o):
    return {k: copy.deepcopy(o[k]) for k in o.keys() if not callable(o[k])}


def main():
    ap = argparse.ArgumentParser()
    ap.add_argument("--dims", type=int, default=3)
    ap.add_argument("--pairs", type=int, default=40)
    ap.add_argument("--orders", type=int, default=4)
    ap.add_argument("--seed", type=int, default=0)
    ap.add_argument("--obligation", default=None)
    ap.add_argument("--input", default=None)
    a = ap.parse_args()
    rng = np.random.default_rng(2000 + a.seed)
    viol, n = [], 0
    distinct, samples = set(), []

    def bad(clause, key, **kw):
        if sum(1 for v in viol if v["clause"] == clause) < 3:
            viol.append(json.loads(json.dumps(dict(clause=clause, key=key, **kw), default=str)))

    names = [k for p in FILES for k, _ in read_file(p)]
    for D in range(1, a.dims + 1):
        base = expected(D, {})
        # defaults for the problem's own dimension
        b, _, _ = mk(D, None)
        n += 1
        for k in names:
            if not same(b.options[k], base[k]) and not (k == "stobads" and b.options[k] is False and base[k] in (None, False)):
                bad("C20.defaults_evaluated_for_own_dimension", "default-D%d-%s" % (D, k), got=b.options[k], expected=base[k])
        # every single option overridden
        for k in names:
            v = tweak(base[k])
            if v is None:
                continue
            n += 1
            user = {k: v}
            given = dict(user)
            try:
                b, _, _ = mk(D, user)
            except Exception as ex:  # noqa: BLE001 - a value the constructor rejects for its type is not an options-loader matter
                continue
            distinct.add((D, k, repr(v)))
            if len(samples) < 4:
                samples.append({"D": D, "override": {k: v}, "constructed_value": b.options[k], "default_for_this_D": base[k]})
            if user != given:
                bad("C20.caller_options_dict_not_mutated", "single-D%d-%s" % (D, k))
            if not same(b.options[k], v):
                bad("C20.user_value_survives_exactly", "single-D%d-%s" % (D, k), got=b.options[k], supplied=v)
            exp = expected(D, user)
            for k2 in names:
                if k2 != k and not same(b.options[k2], exp[k2]) and not (k2 == "stobads" and b.options[k2] is False):
                    bad("C20.dependent_defaults_derived_from_user_value", "single-D%d-%s->%s" % (D, k, k2), got=b.options[k2], expected=exp[k2])
        # unknown names
        for bogus in ("maxiter", "MaxFunEvals", "tol_funn", "display ", "useroption"):
            n += 1
            try:
                mk(D, {bogus: 1})
                bad("C20.unknown_option_raises_ValueError", "unknown-D%d-%s" % (D, bogus), what="accepted")
            except ValueError:
                pass
            except Exception as ex:  # noqa: BLE001
                bad("C20.unknown_option_raises_ValueError", "unknown-D%d-%s" % (D, bogus), what=type(ex).__name__)
    # subsets of overrides
    tw = [k for k in names if tweak(expected(2, {})[k]) is not None and k not in ("display",)]
    for i in range(a.pairs):
        D = int(rng.integers(1, a.dims + 1))
        ks = list(rng.choice(tw, size=int(rng.integers(2, 5)), replace=False))
        base = expected(D, {})
        user = {k: tweak(base[k]) for k in ks}
        n += 1
        try:
            b, _, _ = mk(D, dict(user))
        except Exception:  # noqa: BLE001
            continue
        exp = expected(D, user)
        distinct.add((D, tuple(sorted((k, repr(v)) for k, v in user.items()))))
        if len(samples) < 7:
            samples.append({"D": D, "overrides": user})
        for k2 in names:
            if not same(b.options[k2], exp[k2]) and not (k2 == "stobads" and b.options[k2] is False):
                bad("C20.user_value_survives_exactly" if k2 in user else "C20.dependent_defaults_derived_from_user_value", "subset-%d-%s" % (i, k2), overrides=user, got=b.options[k2], expected=exp[k2])
    # isolation between instances, all orders of construct / run
    for i in range(a.orders):
        specs = [(1, {"tol_fun": 1e-1, "max_fun_evals": 12}), (2, {"max_fun_evals": 14, "tol_mesh": 1e-3}), (3, {"max_fun_evals": 16}), (2, {"tol_fun": 1e-2, "max_fun_evals": 13})]
        order = list(rng.permutation(len(specs)))
        objs = {}
        for j in order:
            D, u = specs[j]
            u_in = dict(u)
            b, arrs, keep = mk(D, u_in)
            objs[j] = (b, snapshot(b.options), arrs, keep, u_in, dict(u), expected(D, u))
        run_order = list(rng.permutation(len(specs)))
        distinct.add(("order", tuple(int(x) for x in order), tuple(int(x) for x in run_order)))
        if len(samples) < 9:
            samples.append({"construct_order": [int(x) for x in order], "run_order": [int(x) for x in run_order], "instances": [{"D": d_, "overrides": u_} for d_, u_ in specs]})
        for j in run_order:
            b = objs[j][0]
            b.options["display"] = "off"
            objs[j] = (b, snapshot(b.options)) + objs[j][2:]
            others = {j2: snapshot(objs[j2][0].options) for j2 in order if j2 != j}
            try:
                b.optimize()
            except Exception:  # noqa: BLE001 - crash freedom is C09
                pass
            n += 1
            for j2 in order:
                if j2 == j:
                    continue
                b2, snap2 = objs[j2][0], others[j2]
                if any(not same(b2.options[k], snap2[k]) for k in snap2 if k != "useroptions"):
                    ch = [k for k in snap2 if k != "useroptions" and not same(b2.options[k], snap2[k])]
                    bad("C20.instances_do_not_share_options", "order-%d-run%d-other%d" % (i, j, j2), changed=ch[:5], construct_order=[int(x) for x in order], run_order=[int(x) for x in run_order])
        for j in order:
            b, _, arrs, keep, u_in, u, exp = objs[j]
            if u_in != u:
                bad("C20.caller_options_dict_not_mutated", "order-%d-inst%d" % (i, j), got=u_in, given=u)
            if any(not np.array_equal(x, y) for x, y in zip(arrs, keep)):
                bad("C20.caller_arrays_not_mutated", "order-%d-inst%d" % (i, j))
    print(json.dumps({"status": "violation" if viol else "ok", "violations": viol, "evaluations": n, "runs": n, "distinct_nontrivial": len(distinct),
                      "rule": "cases: (D, single override) for every option name with a scalar default, (D, subset of 2-4 overrides), (construction order, run order) of 4 instances; "
                              "a case counts as non-trivial when the overriding value differs from the default and the constructor accepted it; distinct by (D, names, values) / by the two orders",
                      "samples": json.loads(json.dumps(samples, default=str)),
                      "bound": "all %d option names x D=1..%d (single overrides), %d random subsets of 2-4 overrides, %d construct/run orders of 4 instances" % (len(names), a.dims, a.pairs, a.orders)}))


if __name__ == "__main__":
    main()
