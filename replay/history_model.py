"""Bounded stand-in for the container clauses of C19 (and conformance check of the ASSUMED contract of
IterationHistory.record used by pyvc): random record/overwrite sequences on the real IterationHistory and
OptimizeResult compared with a reference model (keys, iteration indices, mutable values, deep copies)."""
import argparse, copy, json, os, sys, warnings
warnings.filterwarnings("ignore")
import numpy as np
sys.path.insert(0, os.environ.get("PYVC_REPO", "/repo"))
from pybads.utils.iteration_history import IterationHistory
from pybads.bads.optimize_result import OptimizeResult


def eq(a, b):
    if isinstance(a, np.ndarray) or isinstance(b, np.ndarray):
        return isinstance(a, np.ndarray) and isinstance(b, np.ndarray) and a.shape == b.shape and np.array_equal(a, b)
    return a == b


def one(rng, viol, steps):
    keys = ["u", "fval", "gp", "func_count"]
    h = IterationHistory(keys)
    ref = {k: None for k in keys}
    hist = []
    live = []  # mutable values handed over earlier (mutated later: the history must hold copies)
    for step in range(steps):
        op = rng.choice(["record", "record", "record", "bad_key", "neg_iter", "mutate", "setitem", "record_iteration"])
        k = str(rng.choice(keys))
        it = int(rng.integers(0, 7))
        val = rng.choice([0, 1, 2])
        v = [np.array([float(rng.integers(-3, 4)), 1.0]), float(rng.integers(-3, 4)), {"a": [int(rng.integers(0, 5))]}][val]
        hist.append({"op": str(op), "key": k, "iteration": it, "value": repr(v)})

        def bad(clause, **kw):
            viol.append(dict(clause=clause, key="step%d" % step, history=hist[-10:], **kw))

        try:
            if op == "record":
                h.record(k, v, it)
                if ref[k] is None:
                    ref[k] = [None]
                while len(ref[k]) <= it:
                    ref[k].append(None)
                ref[k][it] = copy.deepcopy(v)
                live.append(v)
            elif op == "record_iteration":
                h.record_iteration({k: v}, it)
                if ref[k] is None:
                    ref[k] = [None]
                while len(ref[k]) <= it:
                    ref[k].append(None)
                ref[k][it] = copy.deepcopy(v)
                live.append(v)
            elif op == "bad_key":
                try:
                    h.record("nope", v, it)
                    bad("C19.unknown_key_rejected")
                except ValueError:
                    pass
                try:
                    h["nope2"] = 1
                    bad("C19.unknown_key_rejected_setitem")
                except ValueError:
                    pass
            elif op == "neg_iter":
                try:
                    h.record(k, v, -1 - it)
                    bad("C19.negative_iteration_rejected")
                except ValueError:
                    pass
            elif op == "mutate" and live:
                m = live[int(rng.integers(0, len(live)))]
                if isinstance(m, np.ndarray):
                    m += 100.0
                elif isinstance(m, dict):
                    m["a"].append(99)
            elif op == "setitem":
                h[k] = None if rng.random() < 0.3 else np.full([2], None)
                ref[k] = None if h[k] is None else [None, None]
        except Exception as ex:  # noqa: BLE001
            bad("C19.container_no_internal_error", exc=repr(ex)[:200])
        for kk in keys:
            a, b = h[kk], ref[kk]
            if (a is None) != (b is None):
                bad("C19.container_state", k=kk)
                break
            if a is None:
                continue
            if len(a) != len(b) or any(not eq(x, y) for x, y in zip(a, b)):
                bad("C19.container_holds_copies_of_what_was_recorded", k=kk, got=repr(list(a))[:200], expected=repr(b)[:200])
                break
        if viol:
            return step + 1
    return steps


def result_checks(viol):
    r = OptimizeResult()
    x = np.array([1.0, 2.0])
    r["x"] = x
    x += 5
    if not np.array_equal(r["x"], np.array([1.0, 2.0])) or not np.array_equal(r.x, r["x"]):
        viol.append(dict(clause="C19.result_holds_copies_and_attribute_access", key="result"))
    try:
        r["not_a_field"] = 1
        viol.append(dict(clause="C19.result_rejects_unknown_keys", key="result"))
    except ValueError:
        pass
    try:
        r.not_a_field
        viol.append(dict(clause="C19.result_unknown_attribute", key="result"))
    except AttributeError:
        pass
    for k in OptimizeResult._keys:
        r[k] = 1
    if sorted(r.keys()) != sorted(OptimizeResult._keys):
        viol.append(dict(clause="C19.result_fixed_field_set", key="result"))


def main():
    ap = argparse.ArgumentParser()
    ap.add_argument("--histories", type=int, default=100)
    ap.add_argument("--steps", type=int, default=40)
    ap.add_argument("--seed", type=int, default=0)
    ap.add_argument("--obligation", default=None)
    a = ap.parse_args()
    rng = np.random.default_rng(9000 + a.seed)
    viol = []
    ops = 0
    result_checks(viol)
    for _ in range(a.histories):
        ops += one(rng, viol, a.steps)
        if viol:
            break
    print(json.dumps({"status": "violation" if viol else "ok", "violations": viol[:5], "evaluations": ops, "runs": a.histories,
                      "bound": "%d random histories x <= %d operations on 4 keys, iteration index < 7" % (a.histories, a.steps)}))


if __name__ == "__main__":
    main()
