"""Bounded stand-in for the floating-point clauses of C11 (rounding error < 1e-9 of the box width, log round trip) and a
cross-check of the proved ones: random valid bound sets (ranges 1e-12..1e12, mixed log/linear, infinite hard bounds),
points inside, on and just outside the box.  One JSON line."""
import argparse, json, os, sys, warnings
warnings.filterwarnings("ignore")
import numpy as np
sys.path.insert(0, os.environ.get("PYVC_REPO", "/repo"))
from pybads.variable_transformer import VariableTransformer


def main():
    ap = argparse.ArgumentParser()
    ap.add_argument("--points", type=int, default=2000)
    ap.add_argument("--seed", type=int, default=0)
    ap.add_argument("--obligation", default=None)
    a = ap.parse_args()
    rng = np.random.default_rng(4000 + a.seed)
    viol, n = [], 0
    boxes = 0
    while n < a.points and len(viol) < 5:
        D = int(rng.integers(1, 5))
        lb, ub, plb, pub = np.empty(D), np.empty(D), np.empty(D), np.empty(D)
        for j in range(D):
            kind = rng.choice(["log", "lin", "lin_unb", "log_ubinf", "tight"])
            scale = 10.0 ** rng.uniform(-12, 12)
            if kind in ("log", "log_ubinf"):
                plb[j] = scale
                pub[j] = scale * 10.0 ** rng.uniform(1, 4)
                lb[j] = plb[j] * 10.0 ** -rng.uniform(0, 3)
                ub[j] = np.inf if kind == "log_ubinf" else pub[j] * 10.0 ** rng.uniform(0, 3)
            else:
                c = rng.uniform(-1, 1) * scale
                w = scale * rng.uniform(0.1, 1)
                plb[j], pub[j] = c - w, c + w
                if kind == "lin_unb":
                    lb[j], ub[j] = -np.inf, np.inf
                elif kind == "tight":
                    lb[j], ub[j] = plb[j], pub[j]
                else:
                    lb[j], ub[j] = plb[j] - w * rng.uniform(0, 5), pub[j] + w * rng.uniform(0, 5)
        try:
            vt = VariableTransformer(D, lb[None, :], ub[None, :], plb[None, :], pub[None, :], np.full((1, D), np.nan))
        except ValueError:
            continue
        boxes += 1
        key = dict(lb=lb.tolist(), ub=ub.tolist(), plb=plb.tolist(), pub=pub.tolist())

        def bad(clause, **kw):
            viol.append(dict(clause=clause, key="box%d" % boxes, box=key, **kw))

        flag = vt.apply_log_t.flatten()
        want = (lb > 0) & (ub > 0) & (plb > 0) & (pub > 0) & (pub / plb >= 10)
        if not np.array_equal(flag, want):
            bad("C11.log_flag_exactly_when_positive_decade", got=flag.tolist(), expected=want.tolist())
        if not np.allclose(vt(plb[None, :]), -1, atol=1e-9) or not np.allclose(vt(pub[None, :]), 1, atol=1e-9):
            bad("C11.plausible_bounds_map_to_unit")
        flb, fub = np.where(np.isfinite(lb), lb, plb - 10 * (pub - plb)), np.where(np.isfinite(ub), ub, pub + 10 * (pub - plb))
        for _ in range(40):
            t = rng.uniform(-0.02, 1.02, size=D)
            x = flb + t * (fub - flb)
            x = np.where(rng.random(D) < 0.1, flb, x)
            x = np.where(rng.random(D) < 0.1, fub, x)
            n += 1
            u = vt(x[None, :])
            xr = vt.inverse_transf(u)[0]
            if np.any(np.isnan(u)) or np.any(u < vt.lb) or np.any(u > vt.ub):
                bad("C11.forward_output_in_transformed_box", x=x.tolist())
                break
            if np.any(xr < lb) or np.any(xr > ub) or np.any(np.isnan(xr)):
                bad("C11.inverse_output_in_hard_box", x=x.tolist())
                break
            inside = (x >= flb) & (x <= fub)
            width = fub - flb
            err = np.abs(xr - x)
            if np.any(err[inside] > 1e-9 * width[inside] + 1e-300):
                bad("C11.round_trip_error_below_1e-9_of_width", x=x.tolist(), back=xr.tolist())
                break
            x2 = x + np.abs(x) * 1e-6 + width * 1e-6
            u2 = vt(x2[None, :])
            dom = inside & (x2 <= fub)  # order is claimed on the hard box (log coordinates are only defined for x > 0)
            if np.any((u2 < u)[0][dom]):
                bad("C11.order_preserved", x=x.tolist(), x2=x2.tolist())
                break
    print(json.dumps({"status": "violation" if viol else "ok", "violations": viol[:5], "evaluations": n, "runs": boxes,
                      "bound": "%d points over %d random boxes, D <= 4, scales 1e-12..1e12" % (n, boxes)}))


if __name__ == "__main__":
    main()
