"""Bounded stand-in / replay search for C12: random operation histories on the real FunctionLogger compared,
after every operation, with an independent reference model of the log (new points, exact repeats, points sharing
k<D coordinates, record/no-record flags, pre-evaluated additions, tiny caches forcing repeated growth,
with/without specified noise, with/without a transform).  One JSON line."""
import argparse
import json
import os
import sys
import warnings

warnings.filterwarnings("ignore")
import numpy as np  # noqa: E402

sys.path.insert(0, os.environ.get("PYVC_REPO", "/repo"))
from pybads.function_logger import FunctionLogger  # noqa: E402
from pybads.variable_transformer import VariableTransformer  # noqa: E402


class Ref:
    """Reference model: list of records in call order."""

    def __init__(self, he):
        self.recs = []  # dict(x, x_orig, y, y_orig, s, n, obs=[(y, s)])
        self.func_count = 0
        self.he = he

    def find(self, x):
        return [i for i, r in enumerate(self.recs) if np.array_equal(r["x"], x)]

    def call(self, x, x_orig, y, s, record):
        self.func_count += 1
        if not record:
            idx = self.find(x)
            if idx:
                self.recs[idx[-1]]["n"] += 1
            return
        if self.he:
            idx = self.find(x)
            if idx:
                r = self.recs[idx[0]]
                r["obs"].append((y, s))
                w = np.array([1.0 / ss ** 2 for _, ss in r["obs"]])
                v = np.array([yy for yy, _ in r["obs"]])
                r["y"] = float(np.sum(w * v) / np.sum(w))
                r["s"] = float(1.0 / np.sqrt(np.sum(w)))
                r["n"] += 1
                return
        self.recs.append(dict(x=x.copy(), x_orig=x_orig.copy(), y=y, y_orig=y, s=s, n=1, obs=[(y, s)]))


def compare(fl, ref, he, step, hist, viol):
    n = len(ref.recs)

    def bad(clause, **kw):
        if len(viol) < 5:
            viol.append(dict(clause=clause, key="step%d" % step, history=hist[-12:], **kw))

    if fl.Xn + 1 != n:
        return bad("C12.one_record_per_recorded_evaluation", Xn=int(fl.Xn), expected=n - 1)
    if fl.func_count != ref.func_count:
        bad("C12.func_count_exact", got=int(fl.func_count), expected=ref.func_count)
    for i, r in enumerate(ref.recs):
        if not np.array_equal(fl.X[i], r["x"]) or not np.array_equal(fl.X_orig[i], r["x_orig"]):
            return bad("C12.coordinates_in_correspondence", row=i)
        if abs(fl.Y[i, 0] - r["y"]) > 1e-9 * max(1.0, abs(r["y"])):
            return bad("C12.value_is_what_was_observed_there", row=i, got=float(fl.Y[i, 0]), expected=r["y"])
        if fl.Y_orig[i, 0] != r["y_orig"]:
            return bad("C12.original_value_kept", row=i)
        if he and abs(fl.S[i, 0] - r["s"]) > 1e-9:
            return bad("C12.combined_sd", row=i, got=float(fl.S[i, 0]), expected=r["s"])
        if fl.n_evals[i, 0] != r["n"]:
            return bad("C12.observation_counts_exact", row=i, got=float(fl.n_evals[i, 0]), expected=r["n"])
        if not fl.X_flag[i]:
            return bad("C12.flag", row=i)
    if np.any(fl.X_flag[n:]) or fl.X_max_idx != fl.Xn:
        bad("C12.wf_tail")
    L = len(fl.X)
    if not (len(fl.X_orig) == len(fl.Y) == len(fl.Y_orig) == len(fl.X_flag) == len(fl.n_evals) == len(fl.fun_eval_time) == L):
        bad("C12.equal_lengths")


def one_history(rng, viol, steps):
    D = int(rng.integers(1, 4))
    he = bool(rng.integers(0, 2))
    transform = bool(rng.integers(0, 2))
    cache = int(rng.choice([1, 2, 3, 5, 500]))
    vt = None
    if transform:
        vt = VariableTransformer(D, -8.0 * np.ones((1, D)), 8.0 * np.ones((1, D)), -2.0 * np.ones((1, D)), 2.0 * np.ones((1, D)))
    vals = {}

    def fun(x):
        y = float(rng.integers(-5, 6)) + 0.5
        vals["last"] = y
        if he:
            s = float(rng.choice([0.5, 1.0, 2.0]))
            vals["s"] = s
            return y, s
        return y

    fl = FunctionLogger(fun, D, he, 2 if he else 0, cache_size=cache, variable_transformer=vt)
    ref = Ref(he)
    lattice = np.array([-1.0, 0.0, 0.5, 1.0])
    hist = []
    for step in range(steps):
        if ref.recs and rng.random() < 0.35:
            x = ref.recs[int(rng.integers(0, len(ref.recs)))]["x"].copy()
            if rng.random() < 0.5 and D > 1:  # share k < D coordinates with a logged point
                x[int(rng.integers(0, D))] = rng.choice(lattice)
        else:
            x = rng.choice(lattice, size=D)
        record = bool(rng.random() < 0.8)
        x_orig = vt.inverse_transf(x.reshape(1, D))[0] if vt is not None else x
        hist.append({"op": "call", "x": x.tolist(), "record": record})
        try:
            fl(x, record_duplicate_data=record)
        except ValueError as ex:
            if "More than one match" in str(ex):
                continue
            raise
        ref.call(x, x_orig, vals["last"], vals.get("s"), record)
        compare(fl, ref, he, step, hist, viol)
        if viol:
            viol[-1]["config"] = dict(D=D, he=he, transform=transform, cache=cache)
            return step + 1
    return steps


def main():
    ap = argparse.ArgumentParser()
    ap.add_argument("--histories", type=int, default=60)
    ap.add_argument("--steps", type=int, default=40)
    ap.add_argument("--seed", type=int, default=0)
    ap.add_argument("--obligation", default=None)
    ap.add_argument("--input", default=None)
    a = ap.parse_args()
    rng = np.random.default_rng(7000 + a.seed)
    viol = []
    ops = 0
    for _ in range(a.histories):
        ops += one_history(rng, viol, a.steps)
        if viol:
            break
    print(json.dumps({"status": "violation" if viol else "ok", "violations": viol, "evaluations": ops, "runs": a.histories,
                      "bound": "%d random histories x <= %d operations, D <= 3, lattice coordinates" % (a.histories, a.steps)}))


if __name__ == "__main__":
    main()
