"""Bounded stand-in for C07 (two-run property): the same problem / options / random_seed is run (A) in a fresh process
state and (B) after an unrelated process history - other BADS runs with a different D and options, arbitrary consumption of
NumPy's global generator, construction of other BADS objects between constructing and running the instance under test, and a
target that draws its noise from NumPy's global generator.  The sequences of evaluated points and x, fval, fsd, func_count,
message must be identical bit for bit.  One JSON line."""
import argparse
import json
import logging
import os
import sys
import warnings

warnings.filterwarnings("ignore")
logging.disable(logging.CRITICAL)
import numpy as np  # noqa: E402

sys.path.insert(0, os.environ.get("PYVC_REPO", "/repo"))
sys.path.insert(0, os.path.dirname(os.path.abspath(__file__)))
from pybads import BADS  # noqa: E402
import panel  # noqa: E402


class GlobalNoiseTarget:
    """Noise drawn from NumPy's *global* generator (the property includes such targets)."""

    def __init__(self, p):
        self.p, self.calls = p, []

    def __call__(self, x):
        x = np.array(x, dtype=float).copy()
        self.calls.append(x)
        p = self.p
        y = float(np.sum((np.log(x) - np.log(p["center"])) ** 2)) if p["geo"] == "log" else float(np.sum((x - p["center"]) ** 2))
        if p["sigma"] > 0:
            y += p["sigma"] * float(np.random.standard_normal())
        return (y, p["sigma"]) if p["mode"] == "specified_noise" else y


def run(p, history, rng):
    t = GlobalNoiseTarget(p)
    if history >= 1:
        np.random.seed(int(rng.integers(0, 2 ** 31)))
        np.random.rand(int(rng.integers(1, 500)))
        q = panel.make_problem(rng, int(rng.integers(1, 4)), "sym", "det", False, 900)
        q["opts"]["max_fun_evals"] = 25
        b0, _ = panel.build(q, GlobalNoiseTarget(q))
        b0.optimize()
    b, _ = panel.build(p, t)
    if history >= 2:
        q = panel.make_problem(rng, int(rng.integers(1, 4)), "log", "declared_noise", False, 901)
        q["opts"]["max_fun_evals"] = 70
        other, _ = panel.build(q, GlobalNoiseTarget(q))
        np.random.rand(7)
        if history >= 3:
            other.optimize()
    r = b.optimize()
    return t.calls, {k: r[k] for k in ("x", "fval", "fsd", "func_count", "message")}


def main():
    ap = argparse.ArgumentParser()
    ap.add_argument("--runs", type=int, default=6)
    ap.add_argument("--seed", type=int, default=0)
    ap.add_argument("--obligation", default=None)
    ap.add_argument("--input", default=None)
    a = ap.parse_args()
    rng = np.random.default_rng(700 + a.seed)
    viol, n = [], 0
    ps = panel.problems(rng, a.runs)
    for i, p in enumerate(ps):
        p["opts"]["max_fun_evals"] = min(p["opts"]["max_fun_evals"], 50)
        key = "repro-k%d:%s:%s:D%d:x0%s" % (p["k"], p["geo"], p["mode"], p["D"], "none" if p["x0"] is None else "given")
        try:
            base_calls, base = run(p, 0, np.random.default_rng(1))
        except Exception as ex:  # noqa: BLE001 - a crash is a C09 matter
            continue
        for h in (1, 2, 3):
            n += 1
            try:
                calls, res = run(p, h, np.random.default_rng(10 * i + h))
            except Exception as ex:  # noqa: BLE001
                viol.append(dict(clause="C07.same_seed_same_run", key=key, history=h, what="run fails only after this history: " + repr(ex)[:100]))
                continue
            same_calls = len(calls) == len(base_calls) and all(np.array_equal(x, y) for x, y in zip(calls, base_calls))
            same_res = all((np.array_equal(res[k], base[k]) if k == "x" else res[k] == base[k]) for k in base)
            if not (same_calls and same_res) and len(viol) < 6:
                first = next((j for j, (x, y) in enumerate(zip(calls, base_calls)) if not np.array_equal(x, y)), min(len(calls), len(base_calls)))
                viol.append(dict(clause="C07.same_seed_same_run", key=key, history=h, first_differing_call=int(first), calls=[len(base_calls), len(calls)],
                                 fval=[base["fval"], res["fval"]]))
    print(json.dumps({"status": "violation" if viol else "ok", "violations": viol, "evaluations": n, "runs": n,
                      "bound": "%d problems x 3 process histories (unrelated run before; other instance constructed in between; other instance run in between)" % len(ps)}, default=str))


if __name__ == "__main__":
    main()
