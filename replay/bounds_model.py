"""Bounded stand-in / replay search for C08 on the real BADS constructor.
(1) value grid: per coordinate (lb, ub, plb, pub, x0) from {absent, -inf, +inf, NaN, finite values in every relative order,
    values within rounding distance}; D = 1 exhaustively over the grid, D = 2, 3 by random combination of coordinates;
    oracle = the property statement (independent predicate): ValueError iff invalid, the target is never called, accepted
    definitions are normalised (lb <= plb < pub <= ub, x0 strictly inside finite hard bounds).
(2) spellings: Python scalar (D = 1), list, tuple, (D,), (1, D), integer dtype of the same numbers give the same problem.
One JSON line."""
import argparse
import itertools
import json
import logging
import os
import sys
import warnings

warnings.filterwarnings("ignore")
logging.disable(logging.CRITICAL)
import numpy as np  # noqa: E402

sys.path.insert(0, os.environ.get("PYVC_REPO", "/repo"))
from pybads import BADS  # noqa: E402

INF, NAN = np.inf, np.nan
EPS = np.spacing(1.0)
CALLS = [0]


def target(x):
    CALLS[0] += 1
    return float(np.sum(np.asarray(x, dtype=float) ** 2))


OUT = {}
_orig_bc = BADS._bounds_check_


def _bc(self, *a, **k):
    r = _orig_bc(self, *a, **k)
    OUT["r"] = tuple(np.array(v, dtype=float, copy=True) for v in r)
    OUT["dtypes"] = [np.asarray(v).dtype.kind for v in r]
    return r


BADS._bounds_check_ = _bc


def valid_coord(lb, ub, plb, pub, x):
    """The property statement for one coordinate (absent = None)."""
    L = -INF if lb is None else lb
    U = INF if ub is None else ub
    P = L if plb is None else plb
    Q = U if pub is None else pub
    if not (np.isfinite(P) and np.isfinite(Q)):
        return False
    if not (L <= P < Q <= U):
        return False
    if x is not None and not np.isnan(x) and not (L <= x <= U):
        return False
    if np.isfinite(L) != np.isfinite(U):
        return False
    if np.isfinite(L) and (not (L + 1e-3 * (U - L) < U - 1e-3 * (U - L)) or U - L <= 4 * np.spacing(max(abs(L), abs(U)))):
        return False  # numerically indistinguishable hard bounds (within rounding distance)
    return True


def margin_zone(lb, ub, plb, pub):
    L = -INF if lb is None else lb
    U = INF if ub is None else ub
    P = L if plb is None else plb
    Q = U if pub is None else pub
    if not (np.isfinite(L) and np.isfinite(U) and np.isfinite(P) and np.isfinite(Q)):
        return False
    r = U - L
    return max(P, L + 1e-3 * r) >= min(Q, U - 1e-3 * r)


def pack(vals):
    """vals: list over coordinates of one bound; all-absent -> None (argument omitted)."""
    if all(v is None for v in vals):
        return None
    return np.array([[NAN if v is None else v for v in vals]], dtype=float)


def run_def(coords, viol, key):
    D = len(coords)
    lb, ub, plb, pub, x0 = [[c[i] for c in coords] for i in range(5)]
    # an argument is either given for all coordinates or omitted: mixed absences are expressed through the defaults
    if any(v is None for v in lb) and not all(v is None for v in lb):
        lb = [(-INF if v is None else v) for v in lb]
    if any(v is None for v in ub) and not all(v is None for v in ub):
        ub = [(INF if v is None else v) for v in ub]
    if any(v is None for v in plb) and not all(v is None for v in plb):
        plb = [(l if v is None else v) for v, l in zip(plb, [(-INF if q is None else q) for q in lb])]
    if any(v is None for v in pub) and not all(v is None for v in pub):
        pub = [(u if v is None else v) for v, u in zip(pub, [(INF if q is None else q) for q in ub])]
    if any(v is None or np.isnan(v) for v in x0) and not all(v is None or np.isnan(v) for v in x0):
        x0 = [(0.5 * ((-1.0 if (l is None or not np.isfinite(l)) else l) + (1.0 if (u is None or not np.isfinite(u)) else u)) if (v is None or np.isnan(v)) else v)
              for v, l, u in zip(x0, lb, ub)]  # a start point is given for all coordinates or omitted as a whole
    args = [pack(x0), pack(lb), pack(ub), pack(plb), pack(pub)]
    dims_known = args[0] is not None or (args[3] is not None or args[1] is not None) and (args[4] is not None or args[2] is not None)
    ok = dims_known and all(valid_coord(lb[j], ub[j], plb[j], pub[j], x0[j]) for j in range(D))
    xinf = any(v is not None and np.isinf(v) for v in x0)  # an infinite start coordinate: known finding class of its own
    mz = dims_known and any(margin_zone(lb[j], ub[j], plb[j], pub[j]) for j in range(D))
    CALLS[0] = 0
    rec = dict(key=key, x0=x0, lb=lb, ub=ub, plb=plb, pub=pub)

    def bad(clause, **kw):
        if sum(1 for v in viol if v["clause"] == clause and v.get("class") == kw.get("class")) < 2:
            d = dict(clause=clause, **rec)
            d.update(kw)
            viol.append(json.loads(json.dumps(d, default=str)))

    OUT.clear()
    try:
        b = BADS(target, *args)
        exc = None
    except ValueError as ex:
        exc = ex
    except Exception as ex:  # noqa: BLE001
        cls = "x0-infinite-on-unbounded-coordinate" if any(v is not None and np.isinf(v) for v in x0) and isinstance(ex, OverflowError) else "other"
        return bad("C08.invalid_definitions_raise_ValueError", got=type(ex).__name__ + ": " + str(ex)[:100], **{"class": cls})
    if CALLS[0]:
        bad("C08.no_target_call_at_construction", calls=CALLS[0])
    if exc is not None and ok:
        strict = "bads:StrictBounds" in str(exc)
        bad("C08.raises_only_for_invalid_definitions", msg=str(exc)[:60].replace("\n", " "),
            **{"class": "x0-infinite-on-unbounded-coordinate" if xinf else ("margin-zone" if (mz and strict) else "other")})
    if exc is None and not ok:
        close = any(l is not None and u is not None and np.isfinite(l) and np.isfinite(u) and l < u and u - l <= 4 * np.spacing(max(abs(l), abs(u))) for l, u in zip(lb, ub))
        bad("C08.accepted_definitions_are_valid", **{"class": "hard-bounds-within-rounding-distance" if close else "other"})
    if exc is None and ok:
        X, L, U, Pl, Pu = OUT["r"]
        if not (np.all(L <= Pl) and np.all(Pl < Pu) and np.all(Pu <= U)):
            bad("C08.normalised_order")
        fin = np.isfinite(L)
        given = ~np.isnan(X)
        sel = fin & given
        if not (np.all(X[sel] > L[sel]) and np.all(X[sel] < U[sel])):
            close = bool(np.any((U - L)[fin] <= 4 * np.spacing(np.maximum(np.abs(L), np.abs(U))[fin])))
            bad("C08.start_point_strictly_inside_finite_hard_bounds", x0_out=X.tolist(), **{"class": "hard-bounds-within-rounding-distance" if close else "other"})
        X2 = np.asarray(b.x0, dtype=float)
        if not np.all(np.isfinite(X2)):
            bad("C08.start_point_strictly_inside_finite_hard_bounds", what="constructed start point is not finite", x0_out=X2.tolist())


def grid_values():
    base = [-1.0, 0.0, 0.5, 1.0, 1.0 + EPS, 3.0]
    coords = []
    for lb in (None, -INF, NAN, -1.0, 0.0, 1.0):
        for ub in (None, INF, NAN, 0.0, 1.0, 1.0 + EPS, 3.0, -1.0):
            for plb in (None, -INF, NAN, -1.0, 0.0, 0.5, 1.0):
                for pub in (None, INF, NAN, -0.5, 0.5, 1.0, 1.0 + EPS, 3.0):
                    for x in (None, NAN, INF, -1.0, 0.0, 0.25, 0.5, 1.0, 2.0):
                        coords.append((lb, ub, plb, pub, x))
    return coords


def spellings(rng, viol, n):
    cnt = 0
    for r in range(n):
        D = int(rng.integers(1, 4))
        lb = rng.integers(-6, -2, size=D).astype(float)
        ub = rng.integers(3, 8, size=D).astype(float)
        plb, pub = lb + 1, ub - 1
        x0 = rng.integers(-1, 2, size=D).astype(float)
        omit_x0 = bool(rng.integers(0, 2))
        ref = BADS(target, None if omit_x0 else x0[None, :], lb[None, :], ub[None, :], plb[None, :], pub[None, :], options={"random_seed": 3})
        REF = OUT["r"]
        forms = {"list": lambda v: v.tolist(), "tuple": lambda v: tuple(v.tolist()), "(D,)": lambda v: v.copy(), "(1,D)": lambda v: v[None, :].copy(),
                 "int (D,)": lambda v: v.astype(int), "int list": lambda v: [int(t) for t in v]}
        if D == 1:
            forms["scalar"] = lambda v: float(v[0])
            forms["int scalar"] = lambda v: int(v[0])
        for name, f in forms.items():
            cnt += 1
            key = "spelling-%d-%s" % (r, name)
            try:
                b = BADS(target, None if omit_x0 else f(x0), f(lb), f(ub), f(plb), f(pub), options={"random_seed": 3})
            except Exception as ex:  # noqa: BLE001
                cls = "sequence-bounds-without-x0" if (omit_x0 and isinstance(ex, AttributeError)) else "other"
                if sum(1 for v in viol if v.get("class") == cls and v["clause"].endswith("same_problem")) < 2:
                    viol.append({"clause": "C08.equivalent_spellings_define_the_same_problem", "key": key, "D": D, "spelling": name, "x0_omitted": omit_x0,
                                 "got": type(ex).__name__ + ": " + str(ex)[:100], "class": cls})
                continue
            same = all(np.array_equal(OUT["r"][i], REF[i], equal_nan=True) and OUT["r"][i].shape == (1, D) for i in range(5))
            same = same and np.array_equal(np.asarray(b.x0, dtype=float), np.asarray(ref.x0, dtype=float)) and np.asarray(b.x0).shape == (1, D)
            ints = any(k in "iu" for k in OUT["dtypes"]) or np.asarray(b.x0).dtype.kind in "iu"
            if not same:
                cls = "other"
                if sum(1 for v in viol if v.get("class") == cls and v["clause"].endswith("same_problem")) < 2:
                    viol.append({"clause": "C08.equivalent_spellings_define_the_same_problem", "key": key, "D": D, "spelling": name, "x0_omitted": omit_x0,
                                 "what": "integer dtype kept in the normalised definition" if ints and same else "normalised definition differs", "class": cls})
    return cnt


def main():
    ap = argparse.ArgumentParser()
    ap.add_argument("--grid", type=int, default=4000, help="number of D=1 grid points (0 = all)")
    ap.add_argument("--multi", type=int, default=600)
    ap.add_argument("--spell", type=int, default=12)
    ap.add_argument("--seed", type=int, default=0)
    ap.add_argument("--obligation", default=None)
    ap.add_argument("--input", default=None)
    a = ap.parse_args()
    rng = np.random.default_rng(800 + a.seed)
    viol = []
    coords = grid_values()
    pick = coords if not a.grid or a.grid >= len(coords) else [coords[i] for i in rng.choice(len(coords), size=a.grid, replace=False)]
    n = 0
    # the known margin-zone witness is always part of the run
    run_def([(0.0, 1000.0, 0.0, 0.9, 0.5)], viol, "witness-margin-zone")
    for i, c in enumerate(pick):
        run_def([c], viol, "grid1-%d" % i)
        n += 1
    good = [c for c in coords if valid_coord(*c)]
    for i in range(a.multi):
        D = int(rng.integers(2, 4))
        cs = [(good if rng.random() < 0.8 else coords)[int(rng.integers(0, len(good if True else coords)))] for _ in range(D)]
        cs = [good[int(rng.integers(0, len(good)))] if rng.random() < 0.8 else coords[int(rng.integers(0, len(coords)))] for _ in range(D)]
        run_def(cs, viol, "multi-%d" % i)
        n += 1
    n += spellings(rng, viol, a.spell)
    print(json.dumps({"status": "violation" if viol else "ok", "violations": viol, "evaluations": n, "runs": n,
                      "bound": "D=1: %d of %d grid definitions; D=2,3: %d random combinations of grid coordinates; %d spelling sets" % (len(pick), len(coords), a.multi, a.spell)}))


if __name__ == "__main__":
    main()
