"""Bounded stand-in / replay search for C18 on the real ES search classes (ESSearchWM, ESSearchELL, ESSearchHedge):
every candidate set leaving the real contraints_check and every acquisition vector leaving the real acq_fcn_lcb inside one
ESSearch.__call__ are recorded (module-level wrappers, /repo untouched); afterwards
  - the proposal (u*, z*) must be one of the recorded candidates with z* == its recorded acquisition value,
  - z* <= every recorded acquisition value,
  - every recorded candidate lies in [lb_search, ub_search],
and for the hedge: probabilities sum to 1 (1e-12), each >= gamma; selection mask: exhaustive (mu, lamb) up to --mask.
One JSON line."""
import argparse
import json
import os
import sys
import warnings

warnings.filterwarnings("ignore")
import numpy as np  # noqa: E402
import logging  # noqa: E402
logging.disable(logging.CRITICAL)

sys.path.insert(0, os.environ.get("PYVC_REPO", "/repo"))
import pybads.search.es_search as es  # noqa: E402
from pybads.search.search_hedge import ESSearchHedge  # noqa: E402
from pybads.function_logger import FunctionLogger  # noqa: E402
from pybads.variable_transformer import VariableTransformer  # noqa: E402

REC = {"cands": [], "z": []}
_cc, _acq = es.contraints_check, es.acq_fcn_lcb


def cc(*a, **k):
    r = _cc(*a, **k)
    REC["cands"].append(np.array(r, copy=True))
    return r


def acq(*a, **k):
    r = _acq(*a, **k)
    REC["z"].append(np.array(r[0], copy=True).flatten())
    return r


es.contraints_check, es.acq_fcn_lcb = cc, acq


class FakeGP:
    def __init__(self, X, y, D, rng):
        self.X, self.y = X, y
        self.c = rng.uniform(-1, 1, size=D)
        self.temporary_data = {"poll_scale": np.exp(rng.uniform(-1, 1, size=D))}

    def predict(self, x, *a, **k):
        x = np.atleast_2d(x)
        mu = np.sum((x - self.c) ** 2, axis=1, keepdims=True)
        s2 = 0.1 + np.abs(np.sin(3 * x)).sum(axis=1, keepdims=True)
        return mu, s2


def one(rng, viol, cfgkey):
    D = int(rng.integers(1, 4))
    n_iter = int(rng.integers(1, 5))
    mu = int(rng.integers(1, 9))
    kind = str(rng.choice(["none", "half", "ring", "tiny"]))
    lb, ub = -np.ones((1, D)) * 2, np.ones((1, D)) * 2
    vt = VariableTransformer(D, lb * 2, ub * 2, lb, ub)
    fl = FunctionLogger(lambda x: float(np.sum(x ** 2)), D, False, 0, cache_size=50, variable_transformer=vt)
    for _ in range(D + 2):
        fl(np.round(rng.uniform(-1, 1, size=D) * 8) / 8)
    gp = FakeGP(fl.X[: fl.Xn + 1].copy(), fl.Y[: fl.Xn + 1].copy(), D, rng)
    cons = None
    if kind == "half":
        cons = lambda x: np.atleast_2d(x)[:, 0] <= 0.3  # noqa: E731
    elif kind == "ring":
        cons = lambda x: np.abs(np.sum(np.atleast_2d(x) ** 2, axis=1) - 0.5) < 0.35  # noqa: E731
    elif kind == "tiny":
        cons = lambda x: np.sum(np.atleast_2d(x) ** 2, axis=1) < 0.02  # noqa: E731
    mesh = 2.0 ** -int(rng.integers(0, 5))
    opt = {"poll_mesh_multiplier": 2.0, "es_start": 0.25, "n_search_iter": n_iter, "search_acq_fcn": ("acq_LCB", None), "es_beta": 1.0}
    state = {"mesh_size": mesh, "search_factor": float(rng.choice([1.0, 4.0])), "search_mesh_size": mesh / 4, "tol_mesh": 1e-6,
             "lb_search": vt(lb * 2), "ub_search": vt(ub * 2), "lb": vt(lb * 2), "ub": vt(ub * 2), "scale": 1.0, "periodic_vars": np.zeros(D, dtype=bool)}
    cls = es.ESSearchWM if rng.random() < 0.5 else es.ESSearchELL
    s = cls(mu, mu, opt)
    REC["cands"], REC["z"] = [], []
    u = np.round(rng.uniform(-1, 1, size=D) * 8) / 8
    cfg = dict(D=D, n_search_iter=n_iter, mu=mu, cons=kind, cls=cls.__name__, key=cfgkey)

    def bad(clause, **kw):
        if len(viol) < 5:
            viol.append(dict(clause=clause, key=cfgkey, config=cfg, **kw))

    try:
        us, z = s(u, lb, ub, fl, gp, state, True, cons)
    except IndexError:
        if any(len(c) for c in REC["cands"]):
            bad("C18.proposal_is_a_surviving_candidate", what="IndexError although candidates survived the filter", survivors=[int(len(c)) for c in REC["cands"]])
        else:
            bad("C09.no_internal_error", exc="IndexError in ESSearch.__call__: every ES candidate was removed by the filter", **{"class": "es-all-candidates-infeasible"})
        return
    if np.size(us) == 0:
        return  # no survivor: an empty search set is handed back (the search step skips the evaluation)
    C = np.vstack([c for c in REC["cands"]]) if REC["cands"] else np.zeros((0, D))
    Z = np.concatenate(REC["z"]) if REC["z"] else np.zeros(0)
    if len(C) != len(Z):
        return bad("C18.harness", what="recorded lengths differ")
    if np.any(C < state["lb_search"] - 1e-12) or np.any(C > state["ub_search"] + 1e-12):
        bad("C18.all_candidates_in_mesh_rounded_box")
    z = float(np.asarray(z).item())
    hit = [k for k in range(len(C)) if np.array_equal(C[k], us)]
    if not hit or not any(Z[k] == z for k in hit):
        return bad("C18.proposal_is_a_surviving_candidate", proposal=np.asarray(us).tolist(), z=z, survivors=[int(len(c)) for c in REC["cands"]])
    if z > Z.min():
        bad("C18.proposal_has_lowest_acquisition", z=z, best=float(Z.min()), survivors=[int(len(c)) for c in REC["cands"]])


def hedge(rng, viol, key):
    n = 2
    gamma = float(rng.choice([0.0, 0.05, 0.125, 0.25, 0.5]))
    opt = {"hedge_gamma": gamma, "hedge_beta": float(rng.choice([1e-3, 1.0, 30.0])), "hedge_decay": 0.1 ** (1 / 20), "n_search_iter": 2, "n_search": 8,
           "poll_mesh_multiplier": 2.0, "es_start": 0.25, "search_acq_fcn": ("acq_LCB", None), "es_beta": 1.0}
    h = ESSearchHedge([("ES-wcm", 1), ("ES-ell", 1)], opt, None)
    h.g = rng.uniform(0, 50, size=n) * rng.choice([0.0, 1.0, 100.0])

    class Stop(Exception):
        pass

    def boom(*a, **k):
        raise Stop()

    sw, se = es.ESSearchWM.__call__, es.ESSearchELL.__call__
    es.ESSearchWM.__call__ = es.ESSearchELL.__call__ = boom
    import pybads.search.search_hedge as sh
    a, b = sh.ESSearchWM, sh.ESSearchELL
    try:
        try:
            h(None, None, None, None, None, {"mesh_size": 1.0})
        except Stop:
            pass
    finally:
        es.ESSearchWM.__call__, es.ESSearchELL.__call__ = sw, se
    p = np.asarray(h.prob, dtype=float)
    if abs(p.sum() - 1) > 1e-12 or np.any(p < gamma - 1e-15):
        if len(viol) < 5:
            viol.append(dict(clause="C18.probabilities_sum_to_one" if abs(p.sum() - 1) > 1e-12 else "C18.probabilities_at_least_floor", key=key, prob=p.tolist(), gamma=gamma))


def masks(limit, viol):
    s = es.ESSearchELL(2, 2, {"poll_mesh_multiplier": 2.0, "es_start": 0.25, "n_search_iter": 2, "search_acq_fcn": ("acq_LCB", None), "es_beta": 1.0})
    n = 0
    for mu in range(1, limit + 1):
        for lamb in range(1, limit + 1):
            n += 1
            try:
                m = s._get_selection_idx_mask_(mu, lamb)
            except Exception as ex:  # noqa: BLE001
                if len(viol) < 5:
                    viol.append(dict(clause="C18.selection_mask", key="mask-%d-%d" % (mu, lamb), error=repr(ex)))
                continue
            ok = len(m) >= min(lamb, mu) and np.all(np.diff(m) >= 0) and m.min() >= 0 and np.all(m[: min(lamb, mu)] < mu)
            if not ok and len(viol) < 5:
                viol.append(dict(clause="C18.selection_mask", key="mask-%d-%d" % (mu, lamb), mask=np.asarray(m).tolist()))
    return n


def main():
    ap = argparse.ArgumentParser()
    ap.add_argument("--runs", type=int, default=300)
    ap.add_argument("--mask", type=int, default=48)
    ap.add_argument("--seed", type=int, default=0)
    ap.add_argument("--obligation", default=None)
    ap.add_argument("--input", default=None)
    a = ap.parse_args()
    viol = []
    n = 0
    for r in range(a.runs):
        rng = np.random.default_rng(1800 + 7919 * a.seed + r)
        np.random.seed(int(rng.integers(0, 2 ** 31)))
        one(rng, viol, "es-%d-%d" % (a.seed, r))
        hedge(rng, viol, "hedge-%d-%d" % (a.seed, r))
        n += 2
    n += masks(a.mask, viol)
    print(json.dumps({"status": "violation" if viol else "ok", "violations": viol, "evaluations": n, "runs": a.runs,
                      "bound": "%d random ES searches (D <= 3, 1-4 ES iterations, mu <= 8, 4 constraint kinds, both strategies) + %d hedge states; "
                               "selection mask exhaustive for mu, lamb <= %d" % (a.runs, a.runs, a.mask)}))


if __name__ == "__main__":
    main()
