"""Bounded stand-in / cross-check for C14: exhaustive enumeration of every random outcome of the real poll_mads_2n
(all strictly-lower entries, diagonal signs and row permutations) for D <= Dmax and mesh ratios 1, 2, 4, by
replacing numpy's random source with an enumerating one.  One JSON line."""
import argparse, itertools, json, os, sys, warnings
warnings.filterwarnings("ignore")
import numpy as np
sys.path.insert(0, os.environ.get("PYVC_REPO", "/repo"))
import pybads.poll  # noqa: F401
pm = sys.modules['pybads.poll.poll_mads_2n']


class Enum:
    def __init__(self, D, n_max, lower, signs, perm):
        self.D, self.n_max, self.lower, self.signs, self.perm = D, n_max, lower, signs, perm

    def randint(self, lo, hi, size=None):
        D = self.D
        if isinstance(size, tuple):
            M = np.ones((D, D), dtype=int)
            it = iter(self.lower)
            for r in range(D):
                for c in range(r):
                    M[r, c] = next(it)
            return M
        return np.array(self.signs)

    def permutation(self, A):
        return A[list(self.perm)]


def main():
    ap = argparse.ArgumentParser()
    ap.add_argument("--dmax", type=int, default=2)
    ap.add_argument("--seed", type=int, default=0)
    ap.add_argument("--obligation", default=None)
    a = ap.parse_args()
    viol, n = [], 0
    real = pm.rnd
    try:
        for D in range(1, a.dmax + 1):
            for ratio in (1, 2, 4):
                n_max = max(1, ratio)
                lows = itertools.product(range(1, 2 * n_max), repeat=D * (D - 1) // 2)
                for lower in lows:
                    for signs in itertools.product((1, 2), repeat=D):
                        for perm in itertools.permutations(range(D)):
                            pm.rnd = Enum(D, n_max, lower, signs, perm)
                            ps = np.linspace(0.5, 2.0, D)
                            B = pm.poll_mads_2n(D, ps, float(ratio), 1.0)
                            n += 1
                            M = (B * ps)[:D]
                            ok = B.shape == (2 * D, D) and np.allclose(B[D:], -B[:D]) and np.allclose(M, np.round(M)) and abs(np.linalg.det(M)) > 0.5 \
                                and np.abs(M).max() <= n_max + 1e-9
                            if ratio == 1:
                                ok = ok and np.array_equal(np.sort(np.abs(M), axis=1)[:, -1], np.ones(D)) and np.abs(M).sum() == D
                            if not ok and len(viol) < 5:
                                viol.append(dict(clause="C14.generator_outcome", key="D%d:r%d" % (D, ratio), lower=list(lower), signs=list(signs), perm=list(perm), M=M.tolist()))
    finally:
        pm.rnd = real
    print(json.dumps({"status": "violation" if viol else "ok", "violations": viol, "evaluations": n, "runs": n, "exhaustive": True,
                      "bound": "all random outcomes for D <= %d, mesh ratios 1, 2, 4" % a.dmax}))


if __name__ == "__main__":
    main()
